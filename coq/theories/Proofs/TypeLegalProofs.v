(* Proofs about Model/TypeLegal.v: what type legality MEANS.

   1. structure of well-formedness: inner => well-formed, the scoper/typer resolution
      does not change it, every component of a well-formed type is well-formed,
      well-formedness is exactly a condition on the sub-type occurrences ([occ_wf]);
   2. per position: [legal p t = [] <-> spec p t] for a declarative [spec]; the other
      outcomes ([E350], [E358], the position's own code) are characterised as well; no
      assertion can fail ([legal_never_panics]); with the code of the pinned commit
      (before df9eac4) one could ([legal_panic_iff_pinned],
      [extern_nested_arraylike_panicked_pinned]) and the repair only changed those
      cases ([repair_conservative]);
   3. monotonicity facts between positions, proved or refuted by a witness;
   4. agreement with the value_type.rs fragment of Model/Mutability.v. *)
From PV Require Import Base.Common Model.TypeLegal.
From PV Require Model.Mutability Model.Layout.

(* ---- 1. well-formedness ---------------------------------------------------------- *)

Lemma inner_wellformed v : is_wellformed_inner v = true -> is_wellformed v = true.
Proof.
  destruct v as [k|e len|e c|e|e|e|e|id|id b|id|d|d];
    try (destruct k); cbn [is_wellformed_inner is_wellformed is_wellformed_element];
    intros H; try exact H; try reflexivity; discriminate.
Qed.

Lemma element_inner v : is_wellformed_element v = true -> is_wellformed_inner v = true.
Proof. unfold is_wellformed_element. intros H. now apply andb_prop in H. Qed.

Lemma element_wellformed v : is_wellformed_element v = true -> is_wellformed v = true.
Proof. intros H. now apply inner_wellformed, element_inner. Qed.

(* Resolution of identifiers and named lengths keeps all three predicates. *)
Lemma typed_can_be_element t : can_be_element (typed_type t) = can_be_element (parse_type t).
Proof. destruct t; reflexivity. Qed.

Lemma typed_inner t : is_wellformed_inner (typed_type t) = is_wellformed_inner (parse_type t).
Proof.
  induction t as [k|id|id b|d IH|d IH|e IH|e IH|e IH|len e IH|c len e IH];
    cbn [typed_type parse_type is_wellformed_inner]; try reflexivity; try exact IH;
    now rewrite IH, typed_can_be_element.
Qed.

Lemma typed_element t : is_wellformed_element (typed_type t) = is_wellformed_element (parse_type t).
Proof. unfold is_wellformed_element. now rewrite typed_inner, typed_can_be_element. Qed.

Theorem typed_wellformed t : is_wellformed (typed_type t) = is_wellformed (parse_type t).
Proof.
  destruct t; cbn [typed_type parse_type is_wellformed];
    try reflexivity; try apply typed_inner; apply typed_element.
Qed.

(* Sub-type occurrences: [occ u0 t u s] = inside the written type [t], itself standing
   directly under [u0], the written type [s] occurs directly under [u]. *)
Inductive under : Type :=
| UTop | UPtr | UView | USlice | UEndless | UArraylike | UArray | UNamed.

Inductive occ : under -> sty -> under -> sty -> Prop :=
| occ_here u0 t : occ u0 t u0 t
| occ_ptr u0 d u s : occ UPtr d u s -> occ u0 (SPtr d) u s
| occ_view u0 d u s : occ UView d u s -> occ u0 (SView d) u s
| occ_slice u0 e u s : occ USlice e u s -> occ u0 (SSlice e) u s
| occ_endless u0 e u s : occ UEndless e u s -> occ u0 (SEndless e) u s
| occ_arraylike u0 e u s : occ UArraylike e u s -> occ u0 (SArraylike e) u s
| occ_array u0 len e u s : occ UArray e u s -> occ u0 (SArray len e) u s
| occ_named u0 c len e u s : occ UNamed e u s -> occ u0 (SArrayNamed c len e) u s.

Definition subtype_of (s t : sty) : Prop := exists u, occ UTop t u s.

Definition elem_under (u : under) : Prop :=
  match u with
  | USlice | UEndless | UArraylike | UArray | UNamed => True
  | UTop | UPtr | UView => False
  end.

(* The condition on one occurrence: `void`, views and slices only as the whole type, an
   endless array only as the whole type or directly behind a pointer or view. *)
Definition occ_wf (u : under) (s : sty) : Prop :=
  match s with
  | SPrim KVoid => u = UTop
  | SView _ => u = UTop
  | SSlice _ => u = UTop
  | SEndless _ => u = UTop \/ u = UPtr \/ u = UView
  | _ => True
  end.

Definition wf_spec (t : sty) : Prop := forall u s, occ UTop t u s -> occ_wf u s.

(* what the three Rust predicates demand of a type standing under [u] *)
Definition ctx_ok (u : under) (v : vty) : Prop :=
  match u with
  | UTop => is_wellformed v = true
  | UPtr | UView => is_wellformed_inner v = true
  | _ => is_wellformed_element v = true
  end.

Lemma ctx_ok_inner u v : u <> UTop -> ctx_ok u v -> is_wellformed_inner v = true.
Proof. destruct u; cbn [ctx_ok]; intros Hu H; try congruence; now apply element_inner. Qed.

Lemma andb_true_l (a b : bool) : a && b = true -> a = true.
Proof. destruct a; [reflexivity|discriminate]. Qed.
Lemma andb_true_r (a b : bool) : a && b = true -> b = true.
Proof. destruct a; [auto|discriminate]. Qed.

(* forward: every occurrence of a type accepted in its context satisfies [occ_wf] *)
Lemma ctx_ok_occ u0 t u s : occ u0 t u s -> ctx_ok u0 (parse_type t) -> occ_wf u s.
Proof.
  induction 1 as [u0 t|u0 d u s _ IH|u0 d u s _ IH|u0 e u s _ IH|u0 e u s _ IH
                 |u0 e u s _ IH|u0 len e u s _ IH|u0 c len e u s _ IH]; intros Hok.
  - destruct t as [k|id|id b|d|d|e|e|e|len e|c len e]; try exact I.
    + destruct k; try exact I.
      destruct u0; cbn in Hok; try reflexivity; discriminate.
    + destruct u0; cbn in Hok; try reflexivity; discriminate.
    + destruct u0; cbn in Hok; try reflexivity; discriminate.
    + destruct u0; cbn [occ_wf]; auto; cbn in Hok; discriminate.
  - apply IH. cbn [ctx_ok].
    destruct u0; cbn [ctx_ok parse_type is_wellformed is_wellformed_inner is_wellformed_element] in Hok;
      try exact Hok; now apply andb_true_r in Hok.
  - apply IH. cbn [ctx_ok].
    destruct u0; cbn in Hok; try exact Hok; discriminate.
  - apply IH. cbn [ctx_ok].
    destruct u0; cbn in Hok; try exact Hok; discriminate.
  - apply IH. cbn [ctx_ok].
    destruct u0; cbn [ctx_ok parse_type is_wellformed is_wellformed_inner is_wellformed_element can_be_element] in Hok;
      try exact Hok; try discriminate.
  - apply IH. cbn [ctx_ok].
    destruct u0; cbn [ctx_ok parse_type is_wellformed is_wellformed_inner is_wellformed_element can_be_element andb] in Hok;
      exact Hok.
  - apply IH. cbn [ctx_ok].
    destruct u0; cbn [ctx_ok parse_type is_wellformed is_wellformed_inner is_wellformed_element can_be_element andb] in Hok;
      exact Hok.
  - apply IH. cbn [ctx_ok].
    destruct u0; cbn [ctx_ok parse_type is_wellformed is_wellformed_inner is_wellformed_element can_be_element andb] in Hok;
      exact Hok.
Qed.

(* backward *)
Lemma occ_ctx_ok t : forall u0, (forall u s, occ u0 t u s -> occ_wf u s) -> ctx_ok u0 (parse_type t).
Proof.
  induction t as [k|id|id b|d IH|d IH|e IH|e IH|e IH|len e IH|c len e IH]; intros u0 H.
  - pose proof (H _ _ (occ_here u0 (SPrim k))) as H0.
    destruct k; cbn [occ_wf] in H0; [subst u0; reflexivity|..]; destruct u0; reflexivity.
  - destruct u0; reflexivity.
  - destruct u0; reflexivity.
  - assert (Hd : is_wellformed_inner (parse_type d) = true).
    { apply (IH UPtr). intros u s Ho. apply H. now constructor. }
    destruct u0; cbn [ctx_ok parse_type is_wellformed is_wellformed_inner is_wellformed_element can_be_element andb];
      exact Hd.
  - pose proof (H _ _ (occ_here u0 (SView d))) as H0. cbn [occ_wf] in H0. subst u0.
    apply (IH UView). intros u s Ho. apply H. now constructor.
  - pose proof (H _ _ (occ_here u0 (SSlice e))) as H0. cbn [occ_wf] in H0. subst u0.
    apply (IH USlice). intros u s Ho. apply H. now constructor.
  - pose proof (H _ _ (occ_here u0 (SEndless e))) as H0. cbn [occ_wf] in H0.
    assert (He : is_wellformed_element (parse_type e) = true).
    { apply (IH UEndless). intros u s Ho. apply H. now constructor. }
    destruct H0 as [->|[->| ->]]; cbn [ctx_ok parse_type is_wellformed is_wellformed_inner]; exact He.
  - assert (He : is_wellformed_element (parse_type e) = true).
    { apply (IH UArraylike). intros u s Ho. apply H. now constructor. }
    destruct u0; cbn [ctx_ok parse_type is_wellformed is_wellformed_inner is_wellformed_element can_be_element andb];
      exact He.
  - assert (He : is_wellformed_element (parse_type e) = true).
    { apply (IH UArray). intros u s Ho. apply H. now constructor. }
    destruct u0; cbn [ctx_ok parse_type is_wellformed is_wellformed_inner is_wellformed_element can_be_element andb];
      exact He.
  - assert (He : is_wellformed_element (parse_type e) = true).
    { apply (IH UNamed). intros u s Ho. apply H. now constructor. }
    destruct u0; cbn [ctx_ok parse_type is_wellformed is_wellformed_inner is_wellformed_element can_be_element andb];
      exact He.
Qed.

(* Well-formedness of a written type is exactly the occurrence condition. *)
Theorem wellformed_iff_occurrences t :
  is_wellformed (parse_type t) = true <-> wf_spec t.
Proof.
  split.
  - intros H u s Ho. exact (ctx_ok_occ _ _ _ _ Ho H).
  - intros H. exact (occ_ctx_ok t UTop H).
Qed.

Lemma occ_trans u0 t u1 s u2 r : occ u0 t u1 s -> occ u1 s u2 r -> occ u0 t u2 r.
Proof. induction 1; intros H2; [exact H2|constructor; auto..]. Qed.

(* a component standing under [u] of a type accepted under [u0] is accepted under [u] *)
Lemma ctx_ok_component u0 t u s : occ u0 t u s -> ctx_ok u0 (parse_type t) -> ctx_ok u (parse_type s).
Proof.
  intros Ho Hok. apply occ_ctx_ok. intros u2 r Ho2.
  exact (ctx_ok_occ _ _ _ _ (occ_trans _ _ _ _ _ _ Ho Ho2) Hok).
Qed.

Lemma ctx_ok_wellformed u v : ctx_ok u v -> is_wellformed v = true.
Proof.
  destruct u; cbn [ctx_ok]; intros H; try exact H;
    try (now apply inner_wellformed); now apply element_wellformed.
Qed.

(* accepted_everywhere_inner: every component of a well-formed type is well-formed
   (taken by itself, as a whole type) *)
Theorem accepted_everywhere_inner t s :
  is_wellformed (parse_type t) = true -> subtype_of s t -> is_wellformed (parse_type s) = true.
Proof.
  intros H [u Ho]. apply (ctx_ok_wellformed u). exact (ctx_ok_component _ _ _ _ Ho H).
Qed.

(* the converse direction fails: components may be fine and the whole ill-formed *)
Theorem components_do_not_suffice_refuted :
  exists t, (forall s, subtype_of s t -> s <> t -> is_wellformed (parse_type s) = true)
            /\ is_wellformed (parse_type t) = false.
Proof.
  exists (SPtr (SPrim KVoid)). split; [|reflexivity].
  intros s [u Ho] Hne. inversion Ho; subst; [congruence|].
  match goal with H : occ UPtr _ _ _ |- _ => inversion H; subst end. reflexivity.
Qed.

(* ---- 2. per position ---------------------------------------------------------- *)

Definition accepted (p : position) (t : sty) : Prop := legal p t = [].

Definition is_extern (p : position) : bool :=
  match p with
  | PVariable | PSizeOf => false
  | PConstant fl | PParameter fl | PReturn fl | PStructMember fl | PWordMember _ fl => f_extern fl
  end.

(* the code a position reports for a well-formed but misplaced type *)
Definition position_code (p : position) : code :=
  match p with
  | PVariable => E352
  | PSizeOf => E359
  | PConstant _ => E353
  | PParameter _ => E354
  | PReturn _ => E351
  | PStructMember _ | PWordMember _ _ => E356
  end.

(* the `assert!` guarding that code *)
Definition position_assert (p : position) : N :=
  match p with
  | PVariable => 0%N
  | PSizeOf => 1945%N
  | PConstant _ => 684%N
  | PParameter _ => 1145%N
  | PReturn _ => 3277%N
  | PStructMember _ | PWordMember _ _ => 1087%N
  end.

(* Top-level shapes a position takes (written types; `&[]T` is the slice pointer). *)
Definition var_shape (t : sty) : Prop :=
  match t with
  | SPrim KVoid | SView _ | SEndless _ | SArraylike _ => False
  | _ => True
  end.

Definition sized_shape (t : sty) : Prop :=
  match t with
  | SPrim KVoid | SView _ | SSlice _ | SEndless _ | SArraylike _ => False
  | _ => True
  end.

Definition const_shape (t : sty) : Prop :=
  match t with
  | SPrim KVoid | SSlice _ | SEndless _ | SArraylike _ | SPtr (SArraylike _) => False
  | _ => True
  end.

Definition param_shape (t : sty) : Prop :=
  match t with
  | SPrim KVoid | SEndless _ | SArray _ _ | SArrayNamed _ _ _ => False
  | _ => True
  end.

Definition ret_shape (t : sty) : Prop :=
  match t with
  | SPrim _ | SWord _ _ => True
  | SPtr (SArraylike _) => False
  | SPtr _ => True
  | _ => False
  end.

Definition member_shape (t : sty) : Prop :=
  match t with
  | SPrim KVoid | SView _ | SSlice _ | SEndless _ | SArraylike _ | SPtr (SArraylike _) => False
  | _ => True
  end.

Definition scalar_or_ptr (t : sty) : Prop :=
  match t with SPrim _ | SPtr _ => True | _ => False end.

Definition prim_size (k : prim) : option N :=
  match k with
  | KInt8 | KUint8 | KChar8 | KBool => Some 1%N
  | KInt16 | KUint16 => Some 2%N
  | KInt32 | KUint32 => Some 4%N
  | KInt64 | KUint64 => Some 8%N
  | KInt128 | KUint128 => Some 16%N
  | KVoid | KUsize => None
  end.

Definition word_member_size (t : sty) : option N :=
  match t with
  | SPrim k => prim_size k
  | SWord _ bytes => Some bytes
  | _ => None
  end.

(* the one member, of [s] bytes, fits a word declared with [d] bytes *)
Definition fits (d s : N) : Prop :=
  (Layout.typer_aligned_size [Z.of_N s] <= Z.of_N d)%Z.

(* What `extern` lets through: pointers, views and `[]` down to an ABI primitive ... *)
Definition abi_prim (k : prim) : Prop :=
  In k [KInt8; KInt16; KInt32; KInt64; KUint8; KUint16; KUint32; KUint64; KUsize; KChar8].

Inductive abi_spine : sty -> Prop :=
| AS_prim k : abi_prim k -> abi_spine (SPrim k)
| AS_ptr d : abi_spine d -> abi_spine (SPtr d)
| AS_view d : abi_spine d -> abi_spine (SView d)
| AS_arraylike e : abi_spine e -> abi_spine (SArraylike e).

(* ... without a `[]` directly inside a `[]` *)
Inductive nested_arraylike : sty -> Prop :=
| NA_here e : nested_arraylike (SArraylike (SArraylike e))
| NA_ptr d : nested_arraylike d -> nested_arraylike (SPtr d)
| NA_view d : nested_arraylike d -> nested_arraylike (SView d)
| NA_arraylike e : nested_arraylike e -> nested_arraylike (SArraylike e).

Definition ext_ok (t : sty) : Prop := abi_spine t /\ ~ nested_arraylike t.

Definition spec (p : position) (t : sty) : Prop :=
  wf_spec t /\
  match p with
  | PVariable => var_shape t
  | PSizeOf => sized_shape t
  | PConstant fl => if f_extern fl then ext_ok t else const_shape t
  | PParameter fl => if f_extern fl then ext_ok t else param_shape t
  | PReturn fl =>
      if f_extern fl then t = SPrim KVoid \/ (ext_ok t /\ scalar_or_ptr t) else ret_shape t
  | PStructMember fl => if f_extern fl then ext_ok t /\ scalar_or_ptr t else member_shape t
  | PWordMember d fl =>
      (if f_extern fl then abi_spine t else True)
      /\ exists s, word_member_size t = Some s /\ fits d s
  end.

(* -- boolean counterparts ------------------------------------------------------- *)

Fixpoint abi_spineb (t : sty) : bool :=
  match t with
  | SPrim k => prim_abi k
  | SPtr d | SView d | SArraylike d => abi_spineb d
  | _ => false
  end.

Fixpoint nestedb (under_arraylike : bool) (t : sty) : bool :=
  match t with
  | SArraylike e => under_arraylike || nestedb true e
  | SPtr d | SView d => nestedb false d
  | _ => false
  end.

Lemma abi_prim_iff k : prim_abi k = true <-> abi_prim k.
Proof.
  unfold abi_prim. destruct k; cbn; split; intros H; try reflexivity; try discriminate; try tauto;
    repeat (destruct H as [H|H]; [discriminate|]); contradiction.
Qed.

Lemma abi_spine_iff t : abi_spineb t = true <-> abi_spine t.
Proof.
  induction t as [k|id|id b|d IH|d IH|e IH|e IH|e IH|len e IH|c len e IH]; cbn [abi_spineb].
  - rewrite abi_prim_iff. split; [now constructor|now inversion 1].
  - split; [discriminate|inversion 1].
  - split; [discriminate|inversion 1].
  - rewrite IH. split; [now constructor|now inversion 1].
  - rewrite IH. split; [now constructor|now inversion 1].
  - split; [discriminate|inversion 1].
  - split; [discriminate|inversion 1].
  - rewrite IH. split; [now constructor|now inversion 1].
  - split; [discriminate|inversion 1].
  - split; [discriminate|inversion 1].
Qed.

Definition is_arraylikeb (t : sty) : bool := match t with SArraylike _ => true | _ => false end.

Lemma nestedb_true t : nestedb true t = is_arraylikeb t || nestedb false t.
Proof. destruct t; reflexivity. Qed.

Lemma nested_iff t : nestedb false t = true <-> nested_arraylike t.
Proof.
  induction t as [k|id|id b|d IH|d IH|e IH|e IH|e IH|len e IH|c len e IH]; cbn [nestedb orb];
    try (split; [discriminate|now inversion 1]).
  - rewrite IH. split; [now constructor|now inversion 1].
  - rewrite IH. split; [now constructor|now inversion 1].
  - rewrite nestedb_true. split.
    + intros H. apply orb_prop in H. destruct H as [H|H].
      * destruct e; try discriminate. constructor.
      * apply NA_arraylike. now apply IH.
    + inversion 1; subst; [reflexivity|]. apply orb_true_iff. right. now apply IH.
Qed.

(* for the types `extern` lets through, "nested" is: some `[]` stands directly in a `[]` *)
Lemma nested_occ t : nested_arraylike t -> forall u0, exists e, occ u0 t UArraylike (SArraylike e).
Proof.
  induction 1 as [e|d _ IH|d _ IH|e _ IH]; intros u0.
  - exists e. apply occ_arraylike. constructor.
  - destruct (IH UPtr) as [e He]. exists e. now constructor.
  - destruct (IH UView) as [e He]. exists e. now constructor.
  - destruct (IH UArraylike) as [e' He]. exists e'. now constructor.
Qed.

Lemma occ_nested u0 t u s :
  occ u0 t u s -> abi_spine t -> u = UArraylike -> is_arraylikeb s = true ->
  (u0 = UArraylike /\ s = t) \/ nested_arraylike t.
Proof.
  induction 1 as [u0 t|u0 d u s _ IH|u0 d u s _ IH|u0 e u s _ IH|u0 e u s _ IH
                 |u0 e u s _ IH|u0 len e u s _ IH|u0 c len e u s _ IH]; intros Hs Hu Hal.
  - left. now split.
  - inversion Hs; subst. destruct (IH H0 eq_refl Hal) as [[Hc _]|Hn]; [discriminate|].
    right. now constructor.
  - inversion Hs; subst. destruct (IH H0 eq_refl Hal) as [[Hc _]|Hn]; [discriminate|].
    right. now constructor.
  - inversion Hs.
  - inversion Hs.
  - inversion Hs; subst. destruct (IH H0 eq_refl Hal) as [[_ He]|Hn].
    + subst s. destruct e; try discriminate. right. constructor.
    + right. now constructor.
  - inversion Hs.
  - inversion Hs.
Qed.

Theorem nested_arraylike_occurrence t :
  abi_spine t -> (nested_arraylike t <-> exists e, occ UTop t UArraylike (SArraylike e)).
Proof.
  intros Hs. split.
  - intros H. exact (nested_occ t H UTop).
  - intros [e Ho]. destruct (occ_nested _ _ _ _ Ho Hs eq_refl eq_refl) as [[Hc _]|Hn];
      [discriminate|exact Hn].
Qed.

(* -- externalize_type on resolved written types ----------------------------------- *)

Fixpoint ext_image (t : sty) : vty :=
  match t with
  | SArraylike e => VEndless (ext_image e)
  | SPtr d => VPointer (ext_image d)
  | SView d => VView (ext_image d)
  | other => typed_type other
  end.

(* what fix_type_for_flags makes of an `extern` type it lets through *)
Definition ext_fixed (t : sty) : vty :=
  match t with
  | SArraylike e => VView (VEndless (ext_image e))
  | other => ext_image other
  end.

(* the repaired code lets through: the spine, and no `[]` directly inside a `[]` *)
Definition ext_okb (t : sty) : bool := abi_spineb t && negb (nestedb false t).

Lemma externalize_unfold_pinned v :
  is_wellformed v = true ->
  externalize_type_pinned v =
  match v with
  | VArraylike e => fix_map VEndless (externalize_type_pinned e)
  | VPointer d => fix_map VPointer (externalize_type_pinned d)
  | VView d => fix_map VView (externalize_type_pinned d)
  | VPrim k => if prim_abi k then FOk v else FErr E358
  | _ => FErr E358
  end.
Proof. intros H. destruct v; cbn [externalize_type_pinned]; rewrite H; reflexivity. Qed.

Lemma externalize_unfold v :
  is_wellformed v = true ->
  externalize_type v =
  match v with
  | VArraylike e =>
      match externalize_type e with
      | FOk (VEndless _) => FErr E358
      | FOk e' => FOk (VEndless e')
      | other => other
      end
  | VPointer d => fix_map VPointer (externalize_type d)
  | VView d => fix_map VView (externalize_type d)
  | VPrim k => if prim_abi k then FOk v else FErr E358
  | _ => FErr E358
  end.
Proof. intros H. destruct v; cbn [externalize_type]; rewrite H; reflexivity. Qed.

Lemma externalize_spec_pinned t :
  is_wellformed (typed_type t) = true ->
  externalize_type_pinned (typed_type t) = if abi_spineb t then FOk (ext_image t) else FErr E358.
Proof.
  induction t as [k|id|id b|d IH|d IH|e IH|e IH|e IH|len e IH|c len e IH]; intros Hwf;
    rewrite (externalize_unfold_pinned _ Hwf); cbn [typed_type abi_spineb ext_image]; try reflexivity.
  - rewrite IH; [destruct (abi_spineb d); reflexivity|].
    cbn [typed_type is_wellformed] in Hwf. now apply inner_wellformed.
  - rewrite IH; [destruct (abi_spineb d); reflexivity|].
    cbn [typed_type is_wellformed] in Hwf. now apply inner_wellformed.
  - rewrite IH; [destruct (abi_spineb e); reflexivity|].
    cbn [typed_type is_wellformed] in Hwf. now apply element_wellformed.
Qed.

Lemma externalize_spec t :
  is_wellformed (typed_type t) = true ->
  externalize_type (typed_type t) = if ext_okb t then FOk (ext_image t) else FErr E358.
Proof.
  unfold ext_okb.
  induction t as [k|id|id b|d IH|d IH|e IH|e IH|e IH|len e IH|c len e IH]; intros Hwf;
    rewrite (externalize_unfold _ Hwf); cbn [typed_type abi_spineb ext_image nestedb orb negb];
    try reflexivity.
  - destruct (prim_abi k); reflexivity.
  - rewrite IH; [destruct (abi_spineb d), (nestedb false d); reflexivity|].
    cbn [typed_type is_wellformed] in Hwf. now apply inner_wellformed.
  - rewrite IH; [destruct (abi_spineb d), (nestedb false d); reflexivity|].
    cbn [typed_type is_wellformed] in Hwf. now apply inner_wellformed.
  - rewrite IH; [|cbn [typed_type is_wellformed] in Hwf; now apply element_wellformed].
    rewrite nestedb_true.
    destruct (abi_spineb e) eqn:Hs; [|reflexivity].
    destruct (nestedb false e); [rewrite orb_true_r; reflexivity|].
    rewrite orb_false_r. cbn [andb negb].
    destruct e; cbn [abi_spineb] in Hs; try discriminate; reflexivity.
Qed.

(* The assertion at the head of externalize_type cannot fail on a type that came
   through the parser (in the pinned code as well). *)
Theorem externalize_assert_holds t :
  is_wellformed (typed_type t) = true -> forall l, externalize_type (typed_type t) <> FPanic l.
Proof. intros H l. rewrite (externalize_spec t H). destruct (ext_okb t); discriminate. Qed.

Theorem externalize_assert_holds_pinned t :
  is_wellformed (typed_type t) = true -> forall l, externalize_type_pinned (typed_type t) <> FPanic l.
Proof. intros H l. rewrite (externalize_spec_pinned t H). destruct (abi_spineb t); discriminate. Qed.

Lemma ext_image_wf t :
  abi_spineb t = true ->
  (is_wellformed_inner (typed_type t) = true ->
   is_wellformed_inner (ext_image t) = negb (nestedb false t)) /\
  (is_wellformed_element (typed_type t) = true ->
   is_wellformed_element (ext_image t) = negb (nestedb true t)).
Proof.
  induction t as [k|id|id b|d IH|d IH|e IH|e IH|e IH|len e IH|c len e IH]; cbn [abi_spineb];
    intros Hs; try discriminate.
  - destruct k; try discriminate; split; reflexivity.
  - destruct (IH Hs) as [IHa _].
    cbn [typed_type ext_image is_wellformed_inner is_wellformed_element can_be_element nestedb andb].
    split; exact IHa.
  - cbn [typed_type ext_image is_wellformed_inner is_wellformed_element can_be_element andb].
    split; discriminate.
  - destruct (IH Hs) as [_ IHb].
    cbn [typed_type ext_image is_wellformed_inner is_wellformed_element can_be_element nestedb andb orb negb].
    split; [exact IHb|reflexivity].
Qed.

Lemma fix_extern_spec_pinned t ctx :
  is_wellformed (typed_type t) = true ->
  fix_type_for_flags_pinned (typed_type t) ctx true =
  if abi_spineb t then FOk (ext_fixed t) else FErr E358.
Proof.
  intros Hwf. unfold fix_type_for_flags_pinned.
  destruct t as [k|id|id b|d|d|e|e|e|len e|c len e];
    try exact (externalize_spec_pinned _ Hwf).
  cbn [typed_type abi_spineb ext_fixed]. rewrite (externalize_spec_pinned e).
  - destruct (abi_spineb e); reflexivity.
  - cbn [typed_type is_wellformed] in Hwf. now apply element_wellformed.
Qed.

Lemma fix_extern_spec t ctx :
  is_wellformed (typed_type t) = true ->
  fix_type_for_flags (typed_type t) ctx true =
  if ext_okb t then FOk (ext_fixed t) else FErr E358.
Proof.
  intros Hwf. unfold fix_type_for_flags.
  destruct t as [k|id|id b|d|d|e|e|e|len e|c len e];
    try exact (externalize_spec _ Hwf).
  change (typed_type (SArraylike e)) with (VArraylike (typed_type e)). cbv iota.
  change (VArraylike (typed_type e)) with (typed_type (SArraylike e)).
  rewrite (externalize_spec _ Hwf). destruct (ext_okb (SArraylike e)); reflexivity.
Qed.

Lemma ext_fixed_wf t :
  is_wellformed (typed_type t) = true -> abi_spineb t = true ->
  is_wellformed (ext_fixed t) = negb (nestedb false t).
Proof.
  intros Hwf Hs.
  destruct t as [k|id|id b|d|d|e|e|e|len e|c len e]; cbn [abi_spineb] in Hs; try discriminate;
    cbn [typed_type is_wellformed] in Hwf;
    cbn [ext_fixed ext_image is_wellformed is_wellformed_inner nestedb orb].
  - reflexivity.
  - now apply ext_image_wf.
  - now apply ext_image_wf.
  - change (can_be_element (ext_image e) && is_wellformed_inner (ext_image e))
      with (is_wellformed_element (ext_image e)). now apply ext_image_wf.
Qed.

(* -- what each declaration arm makes of a type `extern` let through -------------------- *)

Definition ext_flags (fl : dflags) : Prop := f_extern fl = true.

Definition top_view_like (t : sty) : bool :=
  match t with SView _ | SArraylike _ => true | _ => false end.

Lemma spine_top t :
  abi_spineb t = true ->
  (exists k, t = SPrim k /\ prim_abi k = true) \/ (exists d, t = SPtr d) \/ top_view_like t = true.
Proof.
  destruct t; cbn [abi_spineb]; intros H; try discriminate; eauto.
Qed.

Definition is_voidb (t : sty) : bool := match t with SPrim KVoid => true | _ => false end.

Definition fitsb (d s : N) : bool := Layout.word_accepted (Z.of_N d) [Z.of_N s].

Lemma fitsb_iff d s : fitsb d s = true <-> fits d s.
Proof. unfold fitsb, fits, Layout.word_accepted. apply Z.leb_le. Qed.

Lemma constant_fixed_ext t :
  is_wellformed (typed_type t) = true -> abi_spineb t = true ->
  constant_fixed (FOk (ext_fixed t)) = if nestedb false t then OPanic 684 else OCodes [].
Proof.
  intros Hwf Hs. pose proof (ext_fixed_wf t Hwf Hs) as Hw. unfold constant_fixed, judge.
  assert (Hc : can_be_constant (ext_fixed t) = is_wellformed (ext_fixed t)).
  { destruct t as [k|id|id b|d|d|e|e|e|len e|c len e]; cbn [abi_spineb] in Hs; try discriminate;
      try reflexivity. destruct k; try discriminate; reflexivity. }
  rewrite Hc, Hw. destruct (nestedb false t); reflexivity.
Qed.

Lemma parameter_fixed_ext t :
  is_wellformed (typed_type t) = true -> abi_spineb t = true ->
  parameter_fixed (FOk (ext_fixed t)) = if nestedb false t then OPanic 1145 else OCodes [].
Proof.
  intros Hwf Hs. pose proof (ext_fixed_wf t Hwf Hs) as Hw. unfold parameter_fixed, judge.
  assert (Hc : can_be_parameter (ext_fixed t) = is_wellformed (ext_fixed t)).
  { destruct t as [k|id|id b|d|d|e|e|e|len e|c len e]; cbn [abi_spineb] in Hs; try discriminate;
      try reflexivity. destruct k; try discriminate; reflexivity. }
  rewrite Hc, Hw. destruct (nestedb false t); reflexivity.
Qed.

Lemma returned_fixed_ext t :
  is_wellformed (typed_type t) = true -> abi_spineb t = true ->
  returned_fixed (FOk (ext_fixed t)) =
  if nestedb false t then OPanic 3277 else if top_view_like t then OCodes [E351] else OCodes [].
Proof.
  intros Hwf Hs. pose proof (ext_fixed_wf t Hwf Hs) as Hw. unfold returned_fixed, judge.
  destruct (spine_top t Hs) as [[k [-> Hk]]|[[d ->]|Htv]].
  - destruct k; try discriminate; reflexivity.
  - change (can_be_returned (ext_fixed (SPtr d))) with (is_wellformed (ext_fixed (SPtr d))).
    rewrite Hw. cbn [top_view_like]. destruct (nestedb false (SPtr d)); reflexivity.
  - rewrite Htv. rewrite Hw.
    assert (Hc : can_be_returned (ext_fixed t) = false).
    { destruct t; try discriminate; reflexivity. }
    rewrite Hc. destruct (nestedb false t); reflexivity.
Qed.

Lemma struct_member_fixed_ext t :
  is_wellformed (typed_type t) = true -> abi_spineb t = true ->
  member_fixed None (FOk (ext_fixed t)) =
  if nestedb false t then OPanic 1087 else if top_view_like t then OCodes [E356] else OCodes [].
Proof.
  intros Hwf Hs. pose proof (ext_fixed_wf t Hwf Hs) as Hw. unfold member_fixed, judge.
  destruct (spine_top t Hs) as [[k [-> Hk]]|[[d ->]|Htv]].
  - destruct k; try discriminate; reflexivity.
  - change (can_be_struct_member (ext_fixed (SPtr d))) with (is_wellformed (ext_fixed (SPtr d))).
    rewrite Hw. cbn [top_view_like]. destruct (nestedb false (SPtr d)); reflexivity.
  - rewrite Htv, Hw.
    assert (Hc : can_be_struct_member (ext_fixed t) = false).
    { destruct t; try discriminate; reflexivity. }
    rewrite Hc. destruct (nestedb false t); reflexivity.
Qed.

Lemma word_member_fixed_ext d t :
  is_wellformed (typed_type t) = true -> abi_spineb t = true ->
  member_fixed (Some d) (FOk (ext_fixed t)) =
  if nestedb false t then OPanic 1087
  else match word_member_size t with
       | Some s => if fitsb d s then OCodes [] else OCodes [Layout.E380]
       | None => OCodes [E356]
       end.
Proof.
  intros Hwf Hs. pose proof (ext_fixed_wf t Hwf Hs) as Hw. unfold member_fixed, judge.
  destruct (spine_top t Hs) as [[k [-> Hk]]|[[d' ->]|Htv]].
  - destruct k; try discriminate; cbn [nestedb word_member_size prim_size];
      try reflexivity;
      cbn [ext_fixed ext_image typed_type can_be_word_member can_be_struct_member is_wellformed
           known_size_in_bytes_as_word_member andb];
      unfold align_single_member, Layout.align_struct_word, fitsb;
      cbn [to_pvt Layout.known_sizes Layout.known_size_in_bytes_as_word_member Z.of_N];
      match goal with |- context [Layout.word_accepted ?a ?b] => destruct (Layout.word_accepted a b) end;
      reflexivity.
  - assert (Hc : can_be_word_member (ext_fixed (SPtr d')) = false).
    { unfold can_be_word_member. cbn [ext_fixed ext_image known_size_in_bytes_as_word_member].
      apply andb_false_r. }
    rewrite Hc, Hw. cbn [word_member_size]. destruct (nestedb false (SPtr d')); reflexivity.
  - assert (Hc : can_be_word_member (ext_fixed t) = false).
    { destruct t; try discriminate; reflexivity. }
    assert (Hz : word_member_size t = None) by (destruct t; try discriminate; reflexivity).
    rewrite Hc, Hw, Hz. destruct (nestedb false t); reflexivity.
Qed.

(* -- the front end after the parser ------------------------------------------------ *)

Lemma legal_outcome_wf p t :
  is_wellformed (parse_type t) = true ->
  legal_outcome p t =
  match p with
  | PVariable => analyze_variable (typed_type t)
  | PSizeOf => analyze_sizeof (typed_type t)
  | PConstant fl => declare_constant fl (typed_type t)
  | PParameter fl => analyze_parameter fl (typed_type t)
  | PReturn fl => fix_return_type_for_flags fl (typed_type t)
  | PStructMember fl => analyze_member None fl (typed_type t)
  | PWordMember bytes fl => analyze_member (Some bytes) fl (typed_type t)
  end.
Proof. intros H. unfold legal_outcome, parse_wellformed_type. now rewrite H. Qed.

Lemma legal_outcome_illformed p t :
  is_wellformed (parse_type t) = false -> legal_outcome p t = OCodes [E350].
Proof. intros H. unfold legal_outcome, parse_wellformed_type. now rewrite H. Qed.

Lemma legal_outcome_pinned_wf p t :
  is_wellformed (parse_type t) = true ->
  legal_outcome_pinned p t =
  match p with
  | PVariable => analyze_variable (typed_type t)
  | PSizeOf => analyze_sizeof (typed_type t)
  | PConstant fl => constant_fixed (fix_type_for_flags_pinned (typed_type t) FixConst (f_extern fl))
  | PParameter fl => parameter_fixed (fix_type_for_flags_pinned (typed_type t) FixParameter (f_extern fl))
  | PReturn fl =>
      match typed_type t with
      | VPrim KVoid => OCodes []
      | _ => returned_fixed (fix_type_for_flags_pinned (typed_type t) FixReturned (f_extern fl))
      end
  | PStructMember fl => member_fixed None (fix_type_for_flags_pinned (typed_type t) FixMember (f_extern fl))
  | PWordMember bytes fl =>
      member_fixed (Some bytes) (fix_type_for_flags_pinned (typed_type t) FixMember (f_extern fl))
  end.
Proof. intros H. unfold legal_outcome_pinned, parse_wellformed_type. now rewrite H. Qed.

Lemma legal_outcome_pinned_illformed p t :
  is_wellformed (parse_type t) = false -> legal_outcome_pinned p t = OCodes [E350].
Proof. intros H. unfold legal_outcome_pinned, parse_wellformed_type. now rewrite H. Qed.

(* `-> void` is taken before fix_type_for_flags is called *)
Lemma return_void_first t (o : outcome) :
  match typed_type t with VPrim KVoid => OCodes [] | _ => o end =
  if is_voidb t then OCodes [] else o.
Proof.
  destruct t as [k| | | | | | | | | ]; try reflexivity. destruct k; reflexivity.
Qed.

(* -- the outcome of every `extern` position: REPAIRED code ------------------------------ *)

Theorem extern_constant_outcome fl t :
  ext_flags fl -> is_wellformed (parse_type t) = true ->
  legal_outcome (PConstant fl) t = if ext_okb t then OCodes [] else OCodes [E358].
Proof.
  intros Hfl Hwf. rewrite (legal_outcome_wf _ _ Hwf). rewrite <- typed_wellformed in Hwf.
  unfold declare_constant. rewrite Hfl, (fix_extern_spec _ _ Hwf). unfold ext_okb.
  destruct (abi_spineb t) eqn:Hs; [|reflexivity].
  destruct (nestedb false t) eqn:Hn; [reflexivity|]. cbn [andb negb].
  now rewrite (constant_fixed_ext t Hwf Hs), Hn.
Qed.

Theorem extern_parameter_outcome fl t :
  ext_flags fl -> is_wellformed (parse_type t) = true ->
  legal_outcome (PParameter fl) t = if ext_okb t then OCodes [] else OCodes [E358].
Proof.
  intros Hfl Hwf. rewrite (legal_outcome_wf _ _ Hwf). rewrite <- typed_wellformed in Hwf.
  unfold analyze_parameter. rewrite Hfl, (fix_extern_spec _ _ Hwf). unfold ext_okb.
  destruct (abi_spineb t) eqn:Hs; [|reflexivity].
  destruct (nestedb false t) eqn:Hn; [reflexivity|]. cbn [andb negb].
  now rewrite (parameter_fixed_ext t Hwf Hs), Hn.
Qed.

Theorem extern_return_outcome fl t :
  ext_flags fl -> is_wellformed (parse_type t) = true ->
  legal_outcome (PReturn fl) t =
  if is_voidb t then OCodes []
  else if ext_okb t then (if top_view_like t then OCodes [E351] else OCodes [])
       else OCodes [E358].
Proof.
  intros Hfl Hwf. rewrite (legal_outcome_wf _ _ Hwf). rewrite <- typed_wellformed in Hwf.
  unfold fix_return_type_for_flags. rewrite return_void_first.
  destruct (is_voidb t); [reflexivity|].
  rewrite Hfl, (fix_extern_spec _ _ Hwf). unfold ext_okb.
  destruct (abi_spineb t) eqn:Hs; [|reflexivity].
  destruct (nestedb false t) eqn:Hn; [reflexivity|]. cbn [andb negb].
  now rewrite (returned_fixed_ext t Hwf Hs), Hn.
Qed.

Theorem extern_struct_member_outcome fl t :
  ext_flags fl -> is_wellformed (parse_type t) = true ->
  legal_outcome (PStructMember fl) t =
  if ext_okb t then (if top_view_like t then OCodes [E356] else OCodes []) else OCodes [E358].
Proof.
  intros Hfl Hwf. rewrite (legal_outcome_wf _ _ Hwf). rewrite <- typed_wellformed in Hwf.
  unfold analyze_member. rewrite Hfl, (fix_extern_spec _ _ Hwf). unfold ext_okb.
  destruct (abi_spineb t) eqn:Hs; [|reflexivity].
  destruct (nestedb false t) eqn:Hn; [reflexivity|]. cbn [andb negb].
  now rewrite (struct_member_fixed_ext t Hwf Hs), Hn.
Qed.

Theorem extern_word_member_outcome d fl t :
  ext_flags fl -> is_wellformed (parse_type t) = true ->
  legal_outcome (PWordMember d fl) t =
  if ext_okb t then
    match word_member_size t with
    | Some s => if fitsb d s then OCodes [] else OCodes [Layout.E380]
    | None => OCodes [E356]
    end
  else OCodes [E358].
Proof.
  intros Hfl Hwf. rewrite (legal_outcome_wf _ _ Hwf). rewrite <- typed_wellformed in Hwf.
  unfold analyze_member. rewrite Hfl, (fix_extern_spec _ _ Hwf). unfold ext_okb.
  destruct (abi_spineb t) eqn:Hs; [|reflexivity].
  destruct (nestedb false t) eqn:Hn; [reflexivity|]. cbn [andb negb].
  now rewrite (word_member_fixed_ext d t Hwf Hs), Hn.
Qed.

(* -- the outcome of every `extern` position: PINNED code -------------------------------- *)

Theorem extern_constant_outcome_pinned fl t :
  ext_flags fl -> is_wellformed (parse_type t) = true ->
  legal_outcome_pinned (PConstant fl) t =
  if abi_spineb t then (if nestedb false t then OPanic 684 else OCodes []) else OCodes [E358].
Proof.
  intros Hfl Hwf. rewrite (legal_outcome_pinned_wf _ _ Hwf). rewrite <- typed_wellformed in Hwf.
  rewrite Hfl, (fix_extern_spec_pinned _ _ Hwf).
  destruct (abi_spineb t) eqn:Hs; [|reflexivity]. exact (constant_fixed_ext t Hwf Hs).
Qed.

Theorem extern_parameter_outcome_pinned fl t :
  ext_flags fl -> is_wellformed (parse_type t) = true ->
  legal_outcome_pinned (PParameter fl) t =
  if abi_spineb t then (if nestedb false t then OPanic 1145 else OCodes []) else OCodes [E358].
Proof.
  intros Hfl Hwf. rewrite (legal_outcome_pinned_wf _ _ Hwf). rewrite <- typed_wellformed in Hwf.
  rewrite Hfl, (fix_extern_spec_pinned _ _ Hwf).
  destruct (abi_spineb t) eqn:Hs; [|reflexivity]. exact (parameter_fixed_ext t Hwf Hs).
Qed.

Theorem extern_return_outcome_pinned fl t :
  ext_flags fl -> is_wellformed (parse_type t) = true ->
  legal_outcome_pinned (PReturn fl) t =
  if is_voidb t then OCodes []
  else if abi_spineb t then
         (if nestedb false t then OPanic 3277
          else if top_view_like t then OCodes [E351] else OCodes [])
       else OCodes [E358].
Proof.
  intros Hfl Hwf. rewrite (legal_outcome_pinned_wf _ _ Hwf). rewrite <- typed_wellformed in Hwf.
  rewrite return_void_first. destruct (is_voidb t); [reflexivity|].
  rewrite Hfl, (fix_extern_spec_pinned _ _ Hwf).
  destruct (abi_spineb t) eqn:Hs; [|reflexivity]. exact (returned_fixed_ext t Hwf Hs).
Qed.

Theorem extern_struct_member_outcome_pinned fl t :
  ext_flags fl -> is_wellformed (parse_type t) = true ->
  legal_outcome_pinned (PStructMember fl) t =
  if abi_spineb t then
    (if nestedb false t then OPanic 1087
     else if top_view_like t then OCodes [E356] else OCodes [])
  else OCodes [E358].
Proof.
  intros Hfl Hwf. rewrite (legal_outcome_pinned_wf _ _ Hwf). rewrite <- typed_wellformed in Hwf.
  rewrite Hfl, (fix_extern_spec_pinned _ _ Hwf).
  destruct (abi_spineb t) eqn:Hs; [|reflexivity]. exact (struct_member_fixed_ext t Hwf Hs).
Qed.

Theorem extern_word_member_outcome_pinned d fl t :
  ext_flags fl -> is_wellformed (parse_type t) = true ->
  legal_outcome_pinned (PWordMember d fl) t =
  if abi_spineb t then
    (if nestedb false t then OPanic 1087
     else match word_member_size t with
          | Some s => if fitsb d s then OCodes [] else OCodes [Layout.E380]
          | None => OCodes [E356]
          end)
  else OCodes [E358].
Proof.
  intros Hfl Hwf. rewrite (legal_outcome_pinned_wf _ _ Hwf). rewrite <- typed_wellformed in Hwf.
  rewrite Hfl, (fix_extern_spec_pinned _ _ Hwf).
  destruct (abi_spineb t) eqn:Hs; [|reflexivity]. exact (word_member_fixed_ext d t Hwf Hs).
Qed.

(* without `extern` the two versions are the same function *)
Lemma pinned_plain p t : is_extern p = false -> legal_outcome_pinned p t = legal_outcome p t.
Proof.
  intros He. unfold legal_outcome_pinned, legal_outcome.
  destruct (parse_wellformed_type t); [|reflexivity].
  destruct p; cbn [is_extern] in He; try reflexivity;
    unfold declare_constant, analyze_parameter, fix_return_type_for_flags, analyze_member,
      fix_type_for_flags, fix_type_for_flags_pinned; rewrite He; reflexivity.
Qed.

(* -- the outcome of every position without `extern` -------------------------------- *)

Definition plain_flags (fl : dflags) : Prop := f_extern fl = false.

Ltac shape_cases t Hwf :=
  destruct t as [k|id|id b|d|d|e|e|e|len e|c len e];
  [destruct k| | |destruct d as [k'|id'|id' b'|d'|d'|e'|e'|e'|len' e'|c' len' e']| | | | | | ];
  cbn in Hwf |- *; unfold is_wellformed_element in *; rewrite ?Hwf; cbn;
  solve [ discriminate Hwf | left; split; [exact I|reflexivity] | right; split; [tauto|reflexivity] ].

Theorem variable_outcome t :
  is_wellformed (parse_type t) = true ->
  (var_shape t /\ legal_outcome PVariable t = OCodes [])
  \/ (~ var_shape t /\ legal_outcome PVariable t = OCodes [E352]).
Proof.
  intros Hwf. rewrite (legal_outcome_wf _ _ Hwf). rewrite <- typed_wellformed in Hwf.
  unfold analyze_variable. shape_cases t Hwf.
Qed.

Theorem sizeof_outcome t :
  is_wellformed (parse_type t) = true ->
  (sized_shape t /\ legal_outcome PSizeOf t = OCodes [])
  \/ (~ sized_shape t /\ legal_outcome PSizeOf t = OCodes [E359]).
Proof.
  intros Hwf. rewrite (legal_outcome_wf _ _ Hwf). rewrite <- typed_wellformed in Hwf.
  unfold analyze_sizeof, judge. shape_cases t Hwf.
Qed.

Theorem plain_constant_outcome fl t :
  plain_flags fl -> is_wellformed (parse_type t) = true ->
  (const_shape t /\ legal_outcome (PConstant fl) t = OCodes [])
  \/ (~ const_shape t /\ legal_outcome (PConstant fl) t = OCodes [E353]).
Proof.
  intros Hfl Hwf. rewrite (legal_outcome_wf _ _ Hwf). rewrite <- typed_wellformed in Hwf.
  unfold declare_constant, constant_fixed, fix_type_for_flags, fix_plain, judge. rewrite Hfl. shape_cases t Hwf.
Qed.

Theorem plain_parameter_outcome fl t :
  plain_flags fl -> is_wellformed (parse_type t) = true ->
  (param_shape t /\ legal_outcome (PParameter fl) t = OCodes [])
  \/ (~ param_shape t /\ legal_outcome (PParameter fl) t = OCodes [E354]).
Proof.
  intros Hfl Hwf. rewrite (legal_outcome_wf _ _ Hwf). rewrite <- typed_wellformed in Hwf.
  unfold analyze_parameter, parameter_fixed, fix_type_for_flags, fix_plain, judge. rewrite Hfl. shape_cases t Hwf.
Qed.

Theorem plain_return_outcome fl t :
  plain_flags fl -> is_wellformed (parse_type t) = true ->
  (ret_shape t /\ legal_outcome (PReturn fl) t = OCodes [])
  \/ (~ ret_shape t /\ legal_outcome (PReturn fl) t = OCodes [E351]).
Proof.
  intros Hfl Hwf. rewrite (legal_outcome_wf _ _ Hwf). rewrite <- typed_wellformed in Hwf.
  unfold fix_return_type_for_flags, returned_fixed, fix_type_for_flags, fix_plain, judge. rewrite Hfl. shape_cases t Hwf.
Qed.

Theorem plain_struct_member_outcome fl t :
  plain_flags fl -> is_wellformed (parse_type t) = true ->
  (member_shape t /\ legal_outcome (PStructMember fl) t = OCodes [])
  \/ (~ member_shape t /\ legal_outcome (PStructMember fl) t = OCodes [E356]).
Proof.
  intros Hfl Hwf. rewrite (legal_outcome_wf _ _ Hwf). rewrite <- typed_wellformed in Hwf.
  unfold analyze_member, member_fixed, fix_type_for_flags, fix_plain, judge. rewrite Hfl. shape_cases t Hwf.
Qed.

Theorem plain_word_member_outcome d fl t :
  plain_flags fl -> is_wellformed (parse_type t) = true ->
  legal_outcome (PWordMember d fl) t =
  match word_member_size t with
  | Some s => if fitsb d s then OCodes [] else OCodes [Layout.E380]
  | None => OCodes [E356]
  end.
Proof.
  intros Hfl Hwf. rewrite (legal_outcome_wf _ _ Hwf). rewrite <- typed_wellformed in Hwf.
  unfold analyze_member, member_fixed, fix_type_for_flags, judge. rewrite Hfl.
  destruct t as [k|id|id b|d0|d0|e|e|e|len e|c len e];
    [destruct k| | |destruct d0 as [k'|id'|id' b'|d'|d'|e'|e'|e'|len' e'|c' len' e']| | | | | | ];
    cbn [typed_type fix_plain word_member_size prim_size];
    unfold can_be_word_member;
    cbn [can_be_struct_member known_size_in_bytes_as_word_member andb];
    cbn [typed_type is_wellformed is_wellformed_inner] in Hwf |- *;
    unfold is_wellformed_element in *; try discriminate Hwf;
    rewrite ?Hwf; rewrite ?andb_false_r; cbn [andb];
    try reflexivity;
    unfold align_single_member, Layout.align_struct_word, fitsb;
    cbn [to_pvt Layout.known_sizes Layout.known_size_in_bytes_as_word_member Z.of_N];
    match goal with |- context [Layout.word_accepted ?a ?b] => destruct (Layout.word_accepted a b) end;
    reflexivity.
Qed.

(* -- summary theorems -------------------------------------------------------------- *)

Local Notation FE pb := {| f_pub := pb; f_extern := true |}.
Local Notation FP pb := {| f_pub := pb; f_extern := false |}.

Lemma legal_nil_outcome p t : legal p t = [] <-> legal_outcome p t = OCodes [].
Proof.
  unfold legal, codes_of. destruct (legal_outcome p t) as [cs|l]; split; intros H; try congruence; discriminate.
Qed.

Lemma ext_ok_iff t : ext_ok t <-> abi_spineb t = true /\ nestedb false t = false.
Proof.
  unfold ext_ok. rewrite <- abi_spine_iff, <- nested_iff.
  destruct (nestedb false t); intuition congruence.
Qed.

Lemma ext_okb_iff t : ext_okb t = true <-> ext_ok t.
Proof.
  rewrite ext_ok_iff. unfold ext_okb.
  destruct (abi_spineb t), (nestedb false t); cbn; intuition congruence.
Qed.

Lemma ext_okb_false_iff t : ext_okb t = false <-> ~ ext_ok t.
Proof. rewrite <- ext_okb_iff. destruct (ext_okb t); intuition congruence. Qed.

Lemma is_voidb_iff t : is_voidb t = true <-> t = SPrim KVoid.
Proof.
  destruct t as [k| | | | | | | | | ]; try (split; discriminate).
  destruct k; split; intros H; try reflexivity; try discriminate; inversion H.
Qed.

Lemma scalar_or_ptr_iff t : abi_spineb t = true -> (scalar_or_ptr t <-> top_view_like t = false).
Proof.
  destruct t; cbn; intros H; try discriminate; split; intros; try reflexivity; try exact I;
    try contradiction; discriminate.
Qed.

Lemma ext_okb_spine t : ext_okb t = true -> abi_spineb t = true.
Proof. unfold ext_okb. intros H. exact (andb_true_l _ _ H). Qed.

Lemma spine_size_ext_okb t s :
  abi_spineb t = true -> word_member_size t = Some s -> ext_okb t = true.
Proof. unfold ext_okb. destruct t; cbn; intros Hs Hz; try discriminate. rewrite Hs. reflexivity. Qed.

Lemma wf_dec t :
  (is_wellformed (parse_type t) = true /\ wf_spec t)
  \/ (is_wellformed (parse_type t) = false /\ ~ wf_spec t).
Proof.
  destruct (is_wellformed (parse_type t)) eqn:H; [left|right]; split; try reflexivity.
  - now apply wellformed_iff_occurrences.
  - intros Hs. apply wellformed_iff_occurrences in Hs. congruence.
Qed.

Ltac by_plain H :=
  let Hs := fresh "Hs" in let Ho := fresh "Ho" in
  destruct H as [[Hs Ho]|[Hs Ho]]; rewrite Ho;
  (split; [intros _; tauto | intros [_ Hc]; solve [reflexivity | contradiction]])
  || (split; [discriminate | intros [_ Hc]; contradiction]).

(* T0: with the repaired code no assertion of the type rules can fail *)
Theorem legal_never_panics : forall p t, exists cs, legal_outcome p t = OCodes cs.
Proof.
  intros p t.
  destruct (wf_dec t) as [[Hwf Hspec]|[Hwf Hspec]].
  2:{ rewrite (legal_outcome_illformed _ _ Hwf). eexists; reflexivity. }
  destruct p as [| |[pb [|]]|[pb [|]]|[pb [|]]|[pb [|]]|d [pb [|]]].
  - destruct (variable_outcome t Hwf) as [[_ Ho]|[_ Ho]]; rewrite Ho; eexists; reflexivity.
  - destruct (sizeof_outcome t Hwf) as [[_ Ho]|[_ Ho]]; rewrite Ho; eexists; reflexivity.
  - rewrite (extern_constant_outcome (FE pb) t eq_refl Hwf).
    destruct (ext_okb t); eexists; reflexivity.
  - destruct (plain_constant_outcome (FP pb) t eq_refl Hwf) as [[_ Ho]|[_ Ho]]; rewrite Ho;
      eexists; reflexivity.
  - rewrite (extern_parameter_outcome (FE pb) t eq_refl Hwf).
    destruct (ext_okb t); eexists; reflexivity.
  - destruct (plain_parameter_outcome (FP pb) t eq_refl Hwf) as [[_ Ho]|[_ Ho]]; rewrite Ho;
      eexists; reflexivity.
  - rewrite (extern_return_outcome (FE pb) t eq_refl Hwf).
    destruct (is_voidb t), (ext_okb t), (top_view_like t); eexists; reflexivity.
  - destruct (plain_return_outcome (FP pb) t eq_refl Hwf) as [[_ Ho]|[_ Ho]]; rewrite Ho;
      eexists; reflexivity.
  - rewrite (extern_struct_member_outcome (FE pb) t eq_refl Hwf).
    destruct (ext_okb t), (top_view_like t); eexists; reflexivity.
  - destruct (plain_struct_member_outcome (FP pb) t eq_refl Hwf) as [[_ Ho]|[_ Ho]]; rewrite Ho;
      eexists; reflexivity.
  - rewrite (extern_word_member_outcome d (FE pb) t eq_refl Hwf).
    destruct (ext_okb t), (word_member_size t) as [s|]; try destruct (fitsb d s); eexists; reflexivity.
  - rewrite (plain_word_member_outcome d (FP pb) t eq_refl Hwf).
    destruct (word_member_size t) as [s|]; try destruct (fitsb d s); eexists; reflexivity.
Qed.

Corollary legal_outcome_is_legal p t : legal_outcome p t = OCodes (legal p t).
Proof. unfold legal. destruct (legal_never_panics p t) as [cs ->]. reflexivity. Qed.

(* T2: acceptance is exactly the declarative specification *)
Theorem legal_accept_iff p t : legal p t = [] <-> spec p t.
Proof.
  rewrite legal_nil_outcome. unfold spec.
  destruct (wf_dec t) as [[Hwf Hspec]|[Hwf Hspec]].
  2:{ rewrite (legal_outcome_illformed _ _ Hwf). split; [discriminate|tauto]. }
  destruct p as [| |[pb [|]]|[pb [|]]|[pb [|]]|[pb [|]]|d [pb [|]]]; cbn [f_extern].
  - by_plain (variable_outcome t Hwf).
  - by_plain (sizeof_outcome t Hwf).
  - rewrite (extern_constant_outcome (FE pb) t eq_refl Hwf), <- ext_okb_iff.
    destruct (ext_okb t); split; try discriminate; try tauto. intros [_ H]; discriminate.
  - by_plain (plain_constant_outcome (FP pb) t eq_refl Hwf).
  - rewrite (extern_parameter_outcome (FE pb) t eq_refl Hwf), <- ext_okb_iff.
    destruct (ext_okb t); split; try discriminate; try tauto. intros [_ H]; discriminate.
  - by_plain (plain_parameter_outcome (FP pb) t eq_refl Hwf).
  - rewrite (extern_return_outcome (FE pb) t eq_refl Hwf), <- ext_okb_iff, <- is_voidb_iff.
    destruct (is_voidb t) eqn:Hv; [tauto|].
    destruct (ext_okb t) eqn:Hok.
    + rewrite (scalar_or_ptr_iff t (ext_okb_spine t Hok)).
      destruct (top_view_like t); split; try discriminate; try tauto.
      intros [_ [H|[_ H]]]; discriminate.
    + split; [discriminate|]. intros [_ [H|[H _]]]; discriminate.
  - by_plain (plain_return_outcome (FP pb) t eq_refl Hwf).
  - rewrite (extern_struct_member_outcome (FE pb) t eq_refl Hwf), <- ext_okb_iff.
    destruct (ext_okb t) eqn:Hok.
    + rewrite (scalar_or_ptr_iff t (ext_okb_spine t Hok)).
      destruct (top_view_like t); split; try discriminate; try tauto.
      intros [_ [_ H]]; discriminate.
    + split; [discriminate|]. intros [_ [H _]]; discriminate.
  - by_plain (plain_struct_member_outcome (FP pb) t eq_refl Hwf).
  - rewrite (extern_word_member_outcome d (FE pb) t eq_refl Hwf), <- abi_spine_iff.
    destruct (word_member_size t) as [s|] eqn:Hsz.
    + destruct (abi_spineb t) eqn:Hsp.
      * rewrite (spine_size_ext_okb t s Hsp Hsz).
        destruct (fitsb d s) eqn:Hf.
        -- split; [intros _|reflexivity]. repeat split; try assumption.
           exists s. split; [reflexivity|]. now apply fitsb_iff.
        -- split; [discriminate|]. intros [_ [_ [s' [Hs' Hfit]]]].
           inversion Hs'; subst s'. apply fitsb_iff in Hfit. congruence.
      * assert (Hno : ext_okb t = false) by (unfold ext_okb; now rewrite Hsp).
        rewrite Hno. split; [discriminate|]. intros [_ [H _]]. discriminate.
    + destruct (ext_okb t); (split; [discriminate|]);
        intros [_ [_ [s' [Hs' _]]]]; discriminate.
  - rewrite (plain_word_member_outcome d (FP pb) t eq_refl Hwf).
    destruct (word_member_size t) as [s|] eqn:Hsz.
    + destruct (fitsb d s) eqn:Hf.
      * split; [intros _|reflexivity]. repeat split; try assumption.
        exists s. split; [reflexivity|]. now apply fitsb_iff.
      * split; [discriminate|]. intros [_ [_ [s' [Hs' Hfit]]]].
        inversion Hs'; subst s'. apply fitsb_iff in Hfit. congruence.
    + split; [discriminate|]. intros [_ [_ [s' [Hs' _]]]]. discriminate.
Qed.

(* T1: E350 is exactly ill-formedness, at every position *)
Theorem legal_E350_iff p t : legal p t = [E350] <-> ~ wf_spec t.
Proof.
  destruct (wf_dec t) as [[Hwf Hspec]|[Hwf Hspec]].
  2:{ unfold legal, codes_of. rewrite (legal_outcome_illformed _ _ Hwf). tauto. }
  split; [|tauto]. intros H. exfalso. unfold legal, codes_of in H.
  destruct p as [| |[pb [|]]|[pb [|]]|[pb [|]]|[pb [|]]|d [pb [|]]].
  - destruct (variable_outcome t Hwf) as [[_ Ho]|[_ Ho]]; rewrite Ho in H; discriminate.
  - destruct (sizeof_outcome t Hwf) as [[_ Ho]|[_ Ho]]; rewrite Ho in H; discriminate.
  - rewrite (extern_constant_outcome (FE pb) t eq_refl Hwf) in H.
    destruct (ext_okb t); discriminate.
  - destruct (plain_constant_outcome (FP pb) t eq_refl Hwf)
      as [[_ Ho]|[_ Ho]]; rewrite Ho in H; discriminate.
  - rewrite (extern_parameter_outcome (FE pb) t eq_refl Hwf) in H.
    destruct (ext_okb t); discriminate.
  - destruct (plain_parameter_outcome (FP pb) t eq_refl Hwf)
      as [[_ Ho]|[_ Ho]]; rewrite Ho in H; discriminate.
  - rewrite (extern_return_outcome (FE pb) t eq_refl Hwf) in H.
    destruct (is_voidb t), (ext_okb t), (top_view_like t); discriminate.
  - destruct (plain_return_outcome (FP pb) t eq_refl Hwf)
      as [[_ Ho]|[_ Ho]]; rewrite Ho in H; discriminate.
  - rewrite (extern_struct_member_outcome (FE pb) t eq_refl Hwf) in H.
    destruct (ext_okb t), (top_view_like t); discriminate.
  - destruct (plain_struct_member_outcome (FP pb) t eq_refl Hwf)
      as [[_ Ho]|[_ Ho]]; rewrite Ho in H; discriminate.
  - rewrite (extern_word_member_outcome d (FE pb) t eq_refl Hwf) in H.
    destruct (ext_okb t), (word_member_size t) as [s|];
      try destruct (fitsb d s); discriminate.
  - rewrite (plain_word_member_outcome d (FP pb) t eq_refl Hwf) in H.
    destruct (word_member_size t) as [s|]; try destruct (fitsb d s); discriminate.
Qed.

Definition return_of_void (p : position) (t : sty) : Prop :=
  (exists fl, p = PReturn fl) /\ t = SPrim KVoid.

(* T3: E358 is exactly: `extern`, well-formed, and NOT (pointers/views/`[]` down to an ABI
   primitive without a `[]` directly inside a `[]`); the return type `void` excepted *)
Theorem legal_E358_iff p t :
  legal p t = [E358] <->
  is_extern p = true /\ wf_spec t /\ ~ ext_ok t /\ ~ return_of_void p t.
Proof.
  rewrite <- ext_okb_false_iff. unfold return_of_void.
  destruct (wf_dec t) as [[Hwf Hspec]|[Hwf Hspec]].
  2:{ unfold legal, codes_of. rewrite (legal_outcome_illformed _ _ Hwf). split; [discriminate|tauto]. }
  unfold legal, codes_of.
  destruct p as [| |[pb [|]]|[pb [|]]|[pb [|]]|[pb [|]]|d [pb [|]]]; cbn [is_extern f_extern].
  - destruct (variable_outcome t Hwf) as [[_ Ho]|[_ Ho]]; rewrite Ho;
      (split; [discriminate|intros [H _]; discriminate]).
  - destruct (sizeof_outcome t Hwf) as [[_ Ho]|[_ Ho]]; rewrite Ho;
      (split; [discriminate|intros [H _]; discriminate]).
  - rewrite (extern_constant_outcome (FE pb) t eq_refl Hwf).
    destruct (ext_okb t); split; try discriminate; try tauto; try (intros [_ [_ [Hc _]]]; discriminate Hc);
      intros _; repeat split; try assumption; try reflexivity; try discriminate; intros [[fl Hc] _]; discriminate.
  - destruct (plain_constant_outcome (FP pb) t eq_refl Hwf)
      as [[_ Ho]|[_ Ho]]; rewrite Ho; (split; [discriminate|intros [H _]; discriminate]).
  - rewrite (extern_parameter_outcome (FE pb) t eq_refl Hwf).
    destruct (ext_okb t); split; try discriminate; try tauto; try (intros [_ [_ [Hc _]]]; discriminate Hc);
      intros _; repeat split; try assumption; try reflexivity; try discriminate; intros [[fl Hc] _]; discriminate.
  - destruct (plain_parameter_outcome (FP pb) t eq_refl Hwf)
      as [[_ Ho]|[_ Ho]]; rewrite Ho; (split; [discriminate|intros [H _]; discriminate]).
  - rewrite (extern_return_outcome (FE pb) t eq_refl Hwf).
    destruct (is_voidb t) eqn:Hv.
    + apply is_voidb_iff in Hv. split; [discriminate|]. intros [_ [_ [_ Hn]]]. exfalso. apply Hn.
      split; [eexists; reflexivity|exact Hv].
    + destruct (ext_okb t), (top_view_like t); split; try discriminate; try tauto; try (intros [_ [_ [Hc _]]]; discriminate Hc);
        intros _; repeat split; try assumption; try reflexivity; try discriminate;
        intros [_ Hc]; apply is_voidb_iff in Hc; congruence.
  - destruct (plain_return_outcome (FP pb) t eq_refl Hwf)
      as [[_ Ho]|[_ Ho]]; rewrite Ho; (split; [discriminate|intros [H _]; discriminate]).
  - rewrite (extern_struct_member_outcome (FE pb) t eq_refl Hwf).
    destruct (ext_okb t), (top_view_like t); split; try discriminate; try tauto; try (intros [_ [_ [Hc _]]]; discriminate Hc);
      intros _; repeat split; try assumption; try reflexivity; try discriminate; intros [[fl Hc] _]; discriminate.
  - destruct (plain_struct_member_outcome (FP pb) t eq_refl Hwf)
      as [[_ Ho]|[_ Ho]]; rewrite Ho; (split; [discriminate|intros [H _]; discriminate]).
  - rewrite (extern_word_member_outcome d (FE pb) t eq_refl Hwf).
    destruct (ext_okb t), (word_member_size t) as [s|];
      try destruct (fitsb d s); split; try discriminate; try tauto; try (intros [_ [_ [Hc _]]]; discriminate Hc);
      intros _; repeat split; try assumption; try reflexivity; try discriminate; intros [[fl Hc] _]; discriminate.
  - rewrite (plain_word_member_outcome d (FP pb) t eq_refl Hwf).
    destruct (word_member_size t) as [s|]; try destruct (fitsb d s);
      (split; [discriminate|intros [H _]; discriminate]).
Qed.

(* T4 (pinned code only): the assertion failures needed `extern`, and a `[]` directly
   inside a `[]` in a type that `extern` would otherwise let through. *)
Ltac panic_case :=
  let H := fresh "H" in let Hl := fresh "Hl" in let H1 := fresh "H1" in let H2 := fresh "H2" in
  split;
  [ intros H; first [discriminate H | inversion H; repeat split; (reflexivity || assumption)]
  | intros [_ [Hl [_ [H1 H2]]]]; first [discriminate H1 | discriminate H2 | subst; reflexivity] ].

Theorem legal_panic_iff_pinned p t l :
  legal_outcome_pinned p t = OPanic l <->
  is_extern p = true /\ l = position_assert p /\ wf_spec t /\ abi_spine t /\ nested_arraylike t.
Proof.
  destruct (is_extern p) eqn:He.
  2:{ rewrite (pinned_plain p t He). destruct (legal_never_panics p t) as [cs ->].
      split; [discriminate|intros [H _]; discriminate]. }
  rewrite <- abi_spine_iff, <- nested_iff.
  destruct (wf_dec t) as [[Hwf Hspec]|[Hwf Hspec]].
  2:{ rewrite (legal_outcome_pinned_illformed _ _ Hwf). split; [discriminate|tauto]. }
  destruct p as [| |[pb [|]]|[pb [|]]|[pb [|]]|[pb [|]]|d [pb [|]]];
    cbn [is_extern f_extern] in He; try discriminate He; cbn [position_assert].
  - rewrite (extern_constant_outcome_pinned (FE pb) t eq_refl Hwf).
    destruct (abi_spineb t), (nestedb false t); panic_case.
  - rewrite (extern_parameter_outcome_pinned (FE pb) t eq_refl Hwf).
    destruct (abi_spineb t), (nestedb false t); panic_case.
  - rewrite (extern_return_outcome_pinned (FE pb) t eq_refl Hwf).
    destruct (is_voidb t) eqn:Hv.
    + apply is_voidb_iff in Hv. subst t. split; [discriminate|].
      intros [_ [_ [_ [H1 H2]]]]; discriminate.
    + destruct (abi_spineb t), (nestedb false t), (top_view_like t); panic_case.
  - rewrite (extern_struct_member_outcome_pinned (FE pb) t eq_refl Hwf).
    destruct (abi_spineb t), (nestedb false t), (top_view_like t); panic_case.
  - rewrite (extern_word_member_outcome_pinned d (FE pb) t eq_refl Hwf).
    destruct (abi_spineb t), (nestedb false t), (word_member_size t) as [s|];
      try destruct (fitsb d s); panic_case.
Qed.

(* the assertion really failed: the smallest witness, `extern fn f(x: [][]i32);` *)
Theorem extern_nested_arraylike_panicked_pinned :
  exists p t l, legal_outcome_pinned p t = OPanic l.
Proof.
  exists (PParameter (FE false)), (SArraylike (SArraylike (SPrim KInt32))), 1145%N. reflexivity.
Qed.

Example extern_nested_arraylike_now_E358 :
  legal_outcome_pinned (PParameter (FE false)) (SArraylike (SArraylike (SPrim KInt32))) = OPanic 1145
  /\ legal_outcome (PParameter (FE false)) (SArraylike (SArraylike (SPrim KInt32))) = OCodes [E358].
Proof. split; reflexivity. Qed.

(* The repair is conservative: it changes the outcome only where the pinned code failed an
   assertion, and there it reports E358. *)
Theorem repair_conservative p t :
  legal_outcome_pinned p t = legal_outcome p t
  \/ (exists l, legal_outcome_pinned p t = OPanic l /\ legal_outcome p t = OCodes [E358]).
Proof.
  destruct (is_extern p) eqn:He; [|left; now apply pinned_plain].
  destruct (wf_dec t) as [[Hwf Hspec]|[Hwf Hspec]].
  2:{ left. now rewrite (legal_outcome_pinned_illformed _ _ Hwf), (legal_outcome_illformed _ _ Hwf). }
  destruct p as [| |[pb [|]]|[pb [|]]|[pb [|]]|[pb [|]]|d [pb [|]]];
    cbn [is_extern f_extern] in He; try discriminate He.
  - rewrite (extern_constant_outcome_pinned (FE pb) t eq_refl Hwf),
      (extern_constant_outcome (FE pb) t eq_refl Hwf). unfold ext_okb.
    destruct (abi_spineb t), (nestedb false t); cbn [andb negb]; try (left; reflexivity).
    right. eexists. split; reflexivity.
  - rewrite (extern_parameter_outcome_pinned (FE pb) t eq_refl Hwf),
      (extern_parameter_outcome (FE pb) t eq_refl Hwf). unfold ext_okb.
    destruct (abi_spineb t), (nestedb false t); cbn [andb negb]; try (left; reflexivity).
    right. eexists. split; reflexivity.
  - rewrite (extern_return_outcome_pinned (FE pb) t eq_refl Hwf),
      (extern_return_outcome (FE pb) t eq_refl Hwf). unfold ext_okb.
    destruct (is_voidb t), (abi_spineb t), (nestedb false t); cbn [andb negb]; try (left; reflexivity).
    right. eexists. split; reflexivity.
  - rewrite (extern_struct_member_outcome_pinned (FE pb) t eq_refl Hwf),
      (extern_struct_member_outcome (FE pb) t eq_refl Hwf). unfold ext_okb.
    destruct (abi_spineb t), (nestedb false t); cbn [andb negb]; try (left; reflexivity).
    right. eexists. split; reflexivity.
  - rewrite (extern_word_member_outcome_pinned d (FE pb) t eq_refl Hwf),
      (extern_word_member_outcome d (FE pb) t eq_refl Hwf). unfold ext_okb.
    destruct (abi_spineb t), (nestedb false t); cbn [andb negb]; try (left; reflexivity).
    right. eexists. split; reflexivity.
Qed.

(* T5: one code at most, and which *)
Theorem legal_classification p t :
  legal p t = [] \/ legal p t = [E350] \/ (is_extern p = true /\ legal p t = [E358])
  \/ legal p t = [position_code p]
  \/ (exists d fl, p = PWordMember d fl /\ legal p t = [Layout.E380]).
Proof.
  destruct (wf_dec t) as [[Hwf Hspec]|[Hwf Hspec]].
  2:{ right; left. unfold legal, codes_of. now rewrite (legal_outcome_illformed _ _ Hwf). }
  unfold legal, codes_of.
  destruct p as [| |[pb [|]]|[pb [|]]|[pb [|]]|[pb [|]]|d [pb [|]]];
    cbn [is_extern f_extern position_code].
  - destruct (variable_outcome t Hwf) as [[_ Ho]|[_ Ho]]; rewrite Ho; tauto.
  - destruct (sizeof_outcome t Hwf) as [[_ Ho]|[_ Ho]]; rewrite Ho; tauto.
  - rewrite (extern_constant_outcome (FE pb) t eq_refl Hwf).
    destruct (ext_okb t); tauto.
  - destruct (plain_constant_outcome (FP pb) t eq_refl Hwf) as [[_ Ho]|[_ Ho]]; rewrite Ho; tauto.
  - rewrite (extern_parameter_outcome (FE pb) t eq_refl Hwf).
    destruct (ext_okb t); tauto.
  - destruct (plain_parameter_outcome (FP pb) t eq_refl Hwf) as [[_ Ho]|[_ Ho]]; rewrite Ho; tauto.
  - rewrite (extern_return_outcome (FE pb) t eq_refl Hwf).
    destruct (is_voidb t), (ext_okb t), (top_view_like t); tauto.
  - destruct (plain_return_outcome (FP pb) t eq_refl Hwf) as [[_ Ho]|[_ Ho]]; rewrite Ho; tauto.
  - rewrite (extern_struct_member_outcome (FE pb) t eq_refl Hwf).
    destruct (ext_okb t), (top_view_like t); tauto.
  - destruct (plain_struct_member_outcome (FP pb) t eq_refl Hwf) as [[_ Ho]|[_ Ho]]; rewrite Ho; tauto.
  - rewrite (extern_word_member_outcome d (FE pb) t eq_refl Hwf).
    destruct (ext_okb t), (word_member_size t) as [s|];
      try destruct (fitsb d s); try tauto; do 4 right; eexists; eexists; split; reflexivity.
  - rewrite (plain_word_member_outcome d (FP pb) t eq_refl Hwf).
    destruct (word_member_size t) as [s|]; try destruct (fitsb d s); try tauto;
      do 4 right; eexists; eexists; split; reflexivity.
Qed.

(* a well-formed type misplaced at a position without `extern` gets that position's code
   (a word member that is too large: E380) *)
Theorem legal_misplaced p t :
  is_extern p = false -> wf_spec t -> ~ spec p t ->
  legal p t = [position_code p]
  \/ (exists d fl, p = PWordMember d fl /\ legal p t = [Layout.E380]).
Proof.
  intros He Hspec Hn.
  destruct (legal_classification p t) as [H|[H|[[H _]|[H|H]]]]; try congruence; try tauto.
  - apply legal_accept_iff in H. contradiction.
  - apply legal_E350_iff in H. contradiction.
Qed.

(* -- sub-type occurrences of ACCEPTED types ------------------------------------------ *)

Lemma occ_child_not_top u0 t u s : occ u0 t u s -> u = UTop -> u0 = UTop /\ s = t.
Proof.
  induction 1 as [u0 t|u0 d u s _ IH|u0 d u s _ IH|u0 e u s _ IH|u0 e u s _ IH
                 |u0 e u s _ IH|u0 len e u s _ IH|u0 c len e u s _ IH]; intros Hu;
    [now split|destruct (IH Hu); discriminate..].
Qed.

(* Where the special forms may stand in an accepted type:
   `void`   only as the whole return type;
   a view   only as the whole type of a parameter or a constant;
   a slice  only as the whole type of a variable or of a parameter without `extern`;
   an endless array only directly behind a pointer or a view. *)
Definition occ_ok (p : position) (u : under) (s : sty) : Prop :=
  match s with
  | SPrim KVoid => u = UTop /\ exists fl, p = PReturn fl
  | SView _ => u = UTop /\ ((exists fl, p = PParameter fl) \/ (exists fl, p = PConstant fl))
  | SSlice _ => u = UTop /\ (p = PVariable \/ exists fl, p = PParameter fl /\ f_extern fl = false)
  | SEndless _ => u = UPtr \/ u = UView
  | _ => True
  end.

Lemma abi_spine_top t :
  abi_spine t ->
  match t with
  | SPrim k => prim_abi k = true
  | SPtr _ | SView _ | SArraylike _ => True
  | _ => False
  end.
Proof. inversion 1; try exact I. now apply abi_prim_iff. Qed.

Ltac kill_shape :=
  repeat match goal with
  | H : _ /\ _ |- _ => destruct H
  | H : _ \/ _ |- _ => destruct H
  | H : ext_ok _ |- _ => destruct H
  | H : exists _, _ |- _ => destruct H
  end;
  try contradiction; try discriminate;
  try (match goal with H : abi_spine _ |- _ => apply abi_spine_top in H; cbn in H;
                                               first [contradiction|discriminate] end).

Theorem accepted_occurrences p t :
  legal p t = [] -> forall u s, occ UTop t u s -> occ_ok p u s.
Proof.
  intros Hacc u s Ho. apply legal_accept_iff in Hacc. destruct Hacc as [Hwf Hshape].
  pose proof (Hwf u s Ho) as Hocc.
  destruct s as [k|id|id b|d|d|e|e|e|len e|c len e]; try exact I.
  - destruct k; try exact I. cbn [occ_wf] in Hocc. subst u.
    destruct (occ_child_not_top _ _ _ _ Ho eq_refl) as [_ <-].
    split; [reflexivity|].
    destruct p as [| |[pb [|]]|[pb [|]]|[pb [|]]|[pb [|]]|d [pb [|]]]; cbn [f_extern] in Hshape;
      try (eexists; reflexivity); exfalso; kill_shape.
  - cbn [occ_wf] in Hocc. subst u.
    destruct (occ_child_not_top _ _ _ _ Ho eq_refl) as [_ <-].
    split; [reflexivity|].
    destruct p as [| |[pb [|]]|[pb [|]]|[pb [|]]|[pb [|]]|d0 [pb [|]]]; cbn [f_extern] in Hshape;
      try (left; eexists; reflexivity); try (right; eexists; reflexivity); exfalso; kill_shape.
  - cbn [occ_wf] in Hocc. subst u.
    destruct (occ_child_not_top _ _ _ _ Ho eq_refl) as [_ <-].
    split; [reflexivity|].
    destruct p as [| |[pb [|]]|[pb [|]]|[pb [|]]|[pb [|]]|d0 [pb [|]]]; cbn [f_extern] in Hshape;
      try (left; reflexivity); try (right; eexists; split; reflexivity); exfalso; kill_shape.
  - cbn [occ_wf] in Hocc. destruct Hocc as [->|Hocc]; [|exact Hocc].
    exfalso. destruct (occ_child_not_top _ _ _ _ Ho eq_refl) as [_ <-].
    destruct p as [| |[pb [|]]|[pb [|]]|[pb [|]]|[pb [|]]|d0 [pb [|]]]; cbn [f_extern] in Hshape;
      kill_shape.
Qed.

(* in particular: the element of an array (of any kind, at any depth) of an accepted type
   is never `void`, a view, a slice or an endless array *)
Corollary accepted_array_elements p t u s :
  legal p t = [] -> occ UTop t u s -> elem_under u ->
  match s with SPrim KVoid | SView _ | SSlice _ | SEndless _ => False | _ => True end.
Proof.
  intros Hacc Ho Hu. pose proof (accepted_occurrences p t Hacc u s Ho) as H.
  destruct s as [k| | | | | | | | | ]; try exact I; [destruct k; try exact I| | | ];
    cbn [occ_ok] in H.
  - destruct H as [-> _]. exact Hu.
  - destruct H as [-> _]. exact Hu.
  - destruct H as [-> _]. exact Hu.
  - destruct H as [-> | ->]; exact Hu.
Qed.

(* ... but `[]T` may be an element: `[2][]i32` is a legal variable type (a quirk of
   can_be_element; the generator lowers it like `[2]i32`) *)
Example arraylike_element_accepted :
  legal PVariable (SArray 2 (SArraylike (SPrim KInt32))) = []
  /\ legal PSizeOf (SArray 2 (SArraylike (SPrim KInt32))) = []
  /\ legal (PStructMember (FP false)) (SArray 2 (SArraylike (SPrim KInt32))) = []
  /\ legal (PParameter (FP false)) (SArraylike (SArraylike (SPrim KInt32))) = [].
Proof. repeat split; reflexivity. Qed.

(* ---- 3. relations between positions ----------------------------------------------- *)

Definition with_pub (b : bool) (p : position) : position :=
  let set fl := {| f_pub := b; f_extern := f_extern fl |} in
  match p with
  | PVariable => PVariable
  | PSizeOf => PSizeOf
  | PConstant fl => PConstant (set fl)
  | PParameter fl => PParameter (set fl)
  | PReturn fl => PReturn (set fl)
  | PStructMember fl => PStructMember (set fl)
  | PWordMember d fl => PWordMember d (set fl)
  end.

(* `pub` never matters *)
Theorem legal_outcome_pub_irrelevant b p t : legal_outcome (with_pub b p) t = legal_outcome p t.
Proof. destruct p; reflexivity. Qed.

Ltac spec_in H := apply legal_accept_iff in H; destruct H as [?Hwf ?Hsh].
Ltac spec_goal := apply legal_accept_iff; split; [assumption|].

Lemma ext_ok_scalar_shapes t :
  ext_ok t -> scalar_or_ptr t -> var_shape t /\ sized_shape t /\ nestedb false t = false.
Proof.
  intros Hok Hsc. apply ext_ok_iff in Hok. destruct Hok as [Hs Hn].
  destruct t as [k| | |d| | | | | | ]; try contradiction.
  - destruct k; try discriminate; repeat split; exact I.
  - repeat split; try exact I. exact Hn.
Qed.

(* M1  a struct member type is a variable type (with or without `extern`) *)
Theorem struct_member_implies_variable fl t :
  accepted (PStructMember fl) t -> accepted PVariable t.
Proof.
  unfold accepted. intros H. spec_in H. spec_goal. destruct fl as [pb [|]]; cbn [f_extern] in Hsh.
  - destruct Hsh as [Hok Hsc]. now apply ext_ok_scalar_shapes.
  - destruct t as [k| | |d| | | | | | ]; try exact I; try contradiction.
    destruct k; try exact I. contradiction.
Qed.

Theorem variable_implies_struct_member_refuted :
  exists t, accepted PVariable t /\ ~ accepted (PStructMember (FP false)) t.
Proof. exists (SSlice (SPrim KInt32)). split; [reflexivity|discriminate]. Qed.

(* M2  a word member type is a struct member type (same flags) *)
Theorem word_member_implies_struct_member d fl t :
  accepted (PWordMember d fl) t -> accepted (PStructMember fl) t.
Proof.
  unfold accepted. intros H. spec_in H. spec_goal. destruct Hsh as [Hext [s [Hs _]]].
  destruct fl as [pb [|]]; cbn [f_extern] in *.
  - destruct t as [k| | | | | | | | | ]; try discriminate.
    + split; [|exact I]. apply ext_ok_iff. apply abi_spine_iff in Hext. now split.
    + inversion Hext.
  - destruct t as [k| | | | | | | | | ]; try discriminate; try exact I.
    destruct k; try discriminate; exact I.
Qed.

Theorem struct_member_implies_word_member_refuted :
  exists t, accepted (PStructMember (FP false)) t /\ forall d, ~ accepted (PWordMember d (FP false)) t.
Proof. exists (SPrim KUsize). split; [reflexivity|]. intros d H. spec_in H. now destruct Hsh as [_ [s [Hs _]]]. Qed.

(* M3  a struct member type is a constant type (same flags) and has a known size *)
Theorem struct_member_implies_constant fl t :
  accepted (PStructMember fl) t -> accepted (PConstant fl) t.
Proof.
  unfold accepted. intros H. spec_in H. spec_goal. destruct fl as [pb [|]]; cbn [f_extern] in *.
  - tauto.
  - destruct t as [k| | |d| | | | | | ]; try exact I; try contradiction.
    + destruct k; try exact I; contradiction.
    + destruct d; try exact I; contradiction.
Qed.

Theorem constant_implies_struct_member_refuted :
  exists t, accepted (PConstant (FP false)) t /\ ~ accepted (PStructMember (FP false)) t.
Proof. exists (SView (SPrim KInt32)). split; [reflexivity|discriminate]. Qed.

Theorem struct_member_implies_sizeof fl t :
  accepted (PStructMember fl) t -> accepted PSizeOf t.
Proof.
  unfold accepted. intros H. spec_in H. spec_goal. destruct fl as [pb [|]]; cbn [f_extern] in Hsh.
  - destruct Hsh as [Hok Hsc]. now apply ext_ok_scalar_shapes.
  - destruct t as [k| | |d| | | | | | ]; try exact I; try contradiction.
    destruct k; try exact I; contradiction.
Qed.

Theorem sizeof_implies_struct_member_refuted :
  exists t, accepted PSizeOf t /\ ~ accepted (PStructMember (FP false)) t.
Proof. exists (SPtr (SArraylike (SPrim KInt32))). split; [reflexivity|discriminate]. Qed.

(* M4  a type with a known size is a variable type, not conversely *)
Theorem sizeof_implies_variable t : accepted PSizeOf t -> accepted PVariable t.
Proof.
  unfold accepted. intros H. spec_in H. spec_goal.
  destruct t as [k| | | | | | | | | ]; try exact I; try contradiction.
  destruct k; try exact I; contradiction.
Qed.

Theorem variable_implies_sizeof_refuted :
  exists t, accepted PVariable t /\ ~ accepted PSizeOf t.
Proof. exists (SSlice (SPrim KInt32)). split; [reflexivity|discriminate]. Qed.

(* M5  a return type other than `void` is a parameter type (same flags) *)
Theorem return_implies_parameter fl t :
  accepted (PReturn fl) t -> t <> SPrim KVoid -> accepted (PParameter fl) t.
Proof.
  unfold accepted. intros H Hnv. spec_in H. spec_goal. destruct fl as [pb [|]]; cbn [f_extern] in *.
  - destruct Hsh as [Hv|[Hok _]]; [contradiction|exact Hok].
  - destruct t as [k| | |d| | | | | | ]; try exact I; try contradiction.
    destruct k; try exact I. congruence.
Qed.

Theorem return_void_is_no_parameter :
  forall fl, accepted (PReturn fl) (SPrim KVoid) /\ ~ accepted (PParameter fl) (SPrim KVoid).
Proof. intros [pb [|]]; split; try reflexivity; discriminate. Qed.

Theorem parameter_implies_return_refuted :
  exists t, accepted (PParameter (FP false)) t /\ ~ accepted (PReturn (FP false)) t.
Proof. exists (SStruct 1%N). split; [reflexivity|discriminate]. Qed.

(* M6  what `extern` accepts as a parameter is a parameter type without `extern` too;
       for constants, return types and members that is false *)
Theorem extern_parameter_implies_plain pb pb' t :
  accepted (PParameter (FE pb)) t -> accepted (PParameter (FP pb')) t.
Proof.
  unfold accepted. intros H. spec_in H. spec_goal. cbn [f_extern] in *.
  destruct Hsh as [Hs _]. apply abi_spine_top in Hs.
  destruct t as [k| | | | | | | | | ]; try exact I; try contradiction.
  destruct k; try exact I. discriminate.
Qed.

Theorem extern_constant_implies_plain_refuted :
  exists t, accepted (PConstant (FE false)) t /\ ~ accepted (PConstant (FP false)) t.
Proof. exists (SArraylike (SPrim KInt32)). split; [reflexivity|discriminate]. Qed.

Theorem extern_return_implies_plain_refuted :
  exists t, accepted (PReturn (FE false)) t /\ ~ accepted (PReturn (FP false)) t.
Proof. exists (SPtr (SArraylike (SPrim KInt32))). split; [reflexivity|discriminate]. Qed.

Theorem extern_struct_member_implies_plain_refuted :
  exists t, accepted (PStructMember (FE false)) t /\ ~ accepted (PStructMember (FP false)) t.
Proof. exists (SPtr (SArraylike (SPrim KInt32))). split; [reflexivity|discriminate]. Qed.

(* and `extern` rejects even `bool` *)
Theorem plain_parameter_implies_extern_refuted :
  exists t, accepted (PParameter (FP false)) t /\ legal (PParameter (FE false)) t = [E358].
Proof. exists (SPrim KBool). split; reflexivity. Qed.

(* M7  a word declared with one of the five keywords holds its one member exactly when the
       member is not larger *)
Definition valid_word_size (s : N) : Prop := In s [1; 2; 4; 8; 16]%N.

Theorem fits_valid_sizes d s : valid_word_size s -> (fits d s <-> (s <= d)%N).
Proof.
  unfold valid_word_size, fits. cbn [In].
  intros [<-|[<-|[<-|[<-|[<-|[]]]]]]; vm_compute Layout.typer_aligned_size; lia.
Qed.

Corollary word_member_accept_iff d fl t :
  plain_flags fl ->
  (forall id b, t = SWord id b -> valid_word_size b) ->
  (accepted (PWordMember d fl) t <->
   wf_spec t /\ exists s, word_member_size t = Some s /\ (s <= d)%N).
Proof.
  intros Hfl Hv. unfold accepted. rewrite legal_accept_iff. unfold spec. rewrite Hfl.
  assert (Hvs : forall s, word_member_size t = Some s -> valid_word_size s).
  { intros s Hs. destruct t as [k| |id b| | | | | | | ]; try discriminate.
    - unfold valid_word_size. destruct k; inversion Hs; subst; cbn; tauto.
    - inversion Hs; subst. eapply Hv. reflexivity. }
  split.
  - intros [Hwf [_ [s [Hs Hf]]]]. split; [assumption|]. exists s. split; [assumption|].
    now apply (fits_valid_sizes d s (Hvs s Hs)).
  - intros [Hwf [s [Hs Hle]]]. repeat split; try assumption. exists s. split; [assumption|].
    now apply (fits_valid_sizes d s (Hvs s Hs)).
Qed.

(* ---- 4. agreement with the value_type.rs fragment of Model/Mutability.v ------------- *)

Definition prim_tag (k : prim) : N :=
  match k with
  | KVoid => 0 | KInt8 => 1 | KInt16 => 2 | KInt32 => 3 | KInt64 => 4 | KInt128 => 5
  | KUint8 => 6 | KUint16 => 7 | KUint32 => 8 | KUint64 => 9 | KUint128 => 10
  | KUsize => 11 | KChar8 => 12 | KBool => 13
  end%N.

Fixpoint to_mty (v : vty) : Mutability.mty :=
  match v with
  | VPrim k => Mutability.MPrim (prim_tag k)
  | VArray e len => Mutability.MArray (to_mty e) len
  | VArrayNamed e c => Mutability.MArrayNamed (to_mty e) c
  | VSlice e => Mutability.MSlice (to_mty e)
  | VSlicePointer e => Mutability.MSlicePointer (to_mty e)
  | VEndless e => Mutability.MEndless (to_mty e)
  | VArraylike e => Mutability.MArraylike (to_mty e)
  | VStruct id => Mutability.MStruct id
  | VWord id _ => Mutability.MWord id
  | VUnresolved _ => Mutability.MUnresolved
  | VPointer d => Mutability.MPointer (to_mty d)
  | VView d => Mutability.MView (to_mty d)
  end.

Lemma mut_can_be_element v : Mutability.can_be_element (to_mty v) = can_be_element v.
Proof. destruct v as [k| | | | | | | | | | | ]; try reflexivity. destruct k; reflexivity. Qed.

Lemma mut_inner v : Mutability.is_wellformed_inner (to_mty v) = is_wellformed_inner v.
Proof.
  induction v as [k|e IH len|e IH c|e IH|e IH|e IH|e IH|id|id b|id|d IH|d IH];
    cbn [to_mty Mutability.is_wellformed_inner is_wellformed_inner];
    try reflexivity; try exact IH; try (now rewrite IH, mut_can_be_element).
  destruct k; reflexivity.
Qed.

Theorem mut_is_wellformed v : Mutability.is_wellformed (to_mty v) = is_wellformed v.
Proof.
  destruct v as [k| | | | | | | | | | | ];
    cbn [to_mty Mutability.is_wellformed is_wellformed]; unfold is_wellformed_element;
    try reflexivity; try apply mut_inner; now rewrite mut_inner, mut_can_be_element.
Qed.

Theorem mut_can_be_variable v : Mutability.can_be_variable (to_mty v) = can_be_variable v.
Proof.
  destruct v as [k| | | | | | | | | | | ];
    try (destruct k); unfold Mutability.can_be_variable, can_be_variable;
    try reflexivity; rewrite mut_is_wellformed; reflexivity.
Qed.

Theorem mut_can_be_parameter v : Mutability.can_be_parameter (to_mty v) = can_be_parameter v.
Proof.
  destruct v as [k| | | | | | | | | | | ];
    try (destruct k); unfold Mutability.can_be_parameter, can_be_parameter;
    try reflexivity; rewrite mut_is_wellformed; reflexivity.
Qed.

Theorem mut_can_be_struct_member v :
  Mutability.can_be_struct_member (to_mty v) = can_be_struct_member v.
Proof.
  destruct v as [k| | | | | | | | | | | ];
    try (destruct k); unfold Mutability.can_be_struct_member, can_be_struct_member;
    try reflexivity; rewrite mut_is_wellformed; reflexivity.
Qed.

(* ---- examples: the hypotheses are satisfiable by non-trivial objects ----------------- *)

Example ex_spec_variable :
  spec PVariable (SArrayNamed 7%N 2%N (SPtr (SEndless (SStruct 1%N)))).
Proof. apply legal_accept_iff. reflexivity. Qed.

Example ex_extern_accept :
  accepted (PParameter (FE true)) (SArraylike (SPtr (SArraylike (SPrim KChar8))))
  /\ ext_ok (SArraylike (SPtr (SArraylike (SPrim KChar8)))).
Proof.
  split; [reflexivity|]. apply ext_ok_iff. split; reflexivity.
Qed.

Example ex_codes :
  legal PVariable (SArray 2 (SPrim KVoid)) = [E350]
  /\ legal PVariable (SArraylike (SPrim KInt32)) = [E352]
  /\ legal (PConstant (FP false)) (SSlice (SPrim KInt32)) = [E353]
  /\ legal (PParameter (FP false)) (SArray 2 (SPrim KInt32)) = [E354]
  /\ legal (PReturn (FP false)) (SStruct 1%N) = [E351]
  /\ legal (PStructMember (FP false)) (SView (SPrim KInt32)) = [E356]
  /\ legal (PWordMember 4 (FP false)) (SPrim KUsize) = [E356]
  /\ legal (PWordMember 1 (FP false)) (SPrim KInt32) = [Layout.E380]
  /\ legal (PParameter (FE false)) (SPtr (SEndless (SPrim KInt32))) = [E358]
  /\ legal (PReturn (FE false)) (SArraylike (SPrim KInt32)) = [E351]
  /\ legal PSizeOf (SSlice (SPrim KInt32)) = [E359]
  /\ legal (PReturn (FE true)) (SPtr (SArraylike (SArraylike (SPrim KUint8)))) = [E358]
  /\ legal_pinned (PReturn (FE true)) (SPtr (SArraylike (SArraylike (SPrim KUint8)))) = [E_PANIC].
Proof. repeat split; reflexivity. Qed.

Print Assumptions typed_wellformed.
Print Assumptions wellformed_iff_occurrences.
Print Assumptions accepted_everywhere_inner.
Print Assumptions components_do_not_suffice_refuted.
Print Assumptions nested_arraylike_occurrence.
Print Assumptions externalize_assert_holds.
Print Assumptions legal_accept_iff.
Print Assumptions legal_E350_iff.
Print Assumptions legal_E358_iff.
Print Assumptions legal_never_panics.
Print Assumptions legal_outcome_is_legal.
Print Assumptions legal_panic_iff_pinned.
Print Assumptions extern_nested_arraylike_panicked_pinned.
Print Assumptions repair_conservative.
Print Assumptions externalize_assert_holds_pinned.
Print Assumptions extern_constant_outcome.
Print Assumptions extern_parameter_outcome.
Print Assumptions extern_return_outcome.
Print Assumptions extern_struct_member_outcome.
Print Assumptions extern_word_member_outcome.
Print Assumptions legal_classification.
Print Assumptions legal_misplaced.
Print Assumptions accepted_occurrences.
Print Assumptions accepted_array_elements.
Print Assumptions legal_outcome_pub_irrelevant.
Print Assumptions struct_member_implies_variable.
Print Assumptions variable_implies_struct_member_refuted.
Print Assumptions word_member_implies_struct_member.
Print Assumptions struct_member_implies_word_member_refuted.
Print Assumptions struct_member_implies_constant.
Print Assumptions constant_implies_struct_member_refuted.
Print Assumptions struct_member_implies_sizeof.
Print Assumptions sizeof_implies_struct_member_refuted.
Print Assumptions sizeof_implies_variable.
Print Assumptions variable_implies_sizeof_refuted.
Print Assumptions return_implies_parameter.
Print Assumptions return_void_is_no_parameter.
Print Assumptions parameter_implies_return_refuted.
Print Assumptions extern_parameter_implies_plain.
Print Assumptions extern_constant_implies_plain_refuted.
Print Assumptions extern_return_implies_plain_refuted.
Print Assumptions extern_struct_member_implies_plain_refuted.
Print Assumptions plain_parameter_implies_extern_refuted.
Print Assumptions word_member_accept_iff.
Print Assumptions mut_is_wellformed.
Print Assumptions mut_can_be_variable.
Print Assumptions mut_can_be_parameter.
Print Assumptions mut_can_be_struct_member.
