//! pvh — correspondence harness: runs the real penne implementation on case
//! files and prints one canonical line per case.
mod delta;
mod diag;
mod exec;
mod expand;
mod front;
mod ir;
mod lintser;
mod locs;
mod vtpred;
mod mutser;
mod shape;
mod showser;
mod syntaxs;
mod util;

fn main()
{
	let args: Vec<String> = std::env::args().collect();
	if args.len() < 3
	{
		eprintln!("usage: pvh <stream> <casefile>");
		std::process::exit(2);
	}
	util::install_panic_hook();
	util::start_watchdog();
	match args[1].as_str()
	{
		"front" => front::stream(&args[2]),
		"fuzz" => delta::fuzz_stream(&args[2]),
		"syntax-tree" => syntaxs::stream(&args[2]),
		"lex" => delta::lex_stream(&args[2]),
		"delta-tree" => delta::stream(&args[2]),
		"delta-total" => delta::total_stream(&args[2]),
		"diag" => diag::stream(&args[2]),
		"loc" => locs::stream(&args[2]),
		"vtpred" => vtpred::stream(&args[2]),
		"expand" => expand::stream(&args[2]),
		"exec" => exec::stream(&args[2], true, false, false),
		"exec-tools" => exec::stream(&args[2], true, true, false),
		"tools" => exec::stream(&args[2], false, true, false),
		"tools-wasm" => exec::stream(&args[2], false, true, true),
		"typed" => mutser::stream(&args[2]),
		"lintwalk" => mutser::lint_stream(&args[2]),
		"ir" => ir::stream(&args[2], false),
		"ir-wasm" => ir::stream(&args[2], true),
		other =>
		{
			eprintln!("unknown stream {}", other);
			std::process::exit(2);
		}
	}
}
