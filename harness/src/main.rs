//! pvh — correspondence harness: runs the real penne implementation on case
//! files and prints one canonical line per case.
mod front;
mod shape;
mod util;

fn main()
{
	let args: Vec<String> = std::env::args().collect();
	if args.len() < 3
	{
		eprintln!("usage: pvh <stream> <casefile>");
		std::process::exit(2);
	}
	util::install_panic_hook();
	match args[1].as_str()
	{
		"front" => front::stream(&args[2]),
		other =>
		{
			eprintln!("unknown stream {}", other);
			std::process::exit(2);
		}
	}
}
