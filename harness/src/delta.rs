//! Streams for the second-generation front end (C14..C17): `delta-tree` prints
//! errors, the Debug form of the node array and of the extracted header, and
//! the XML dumps.
use penne::delta::*;

pub fn stream(casefile: &str)
{
	for (id, payload) in crate::util::read_cases(casefile)
	{
		let res = crate::util::guarded(move || {
			let tokens = lexer::lex(&payload, "case.pn");
			if let Some(errors) = tokens.errors()
			{
				return format!(
					"lexerr codes={}",
					crate::util::codes_to_string(&errors.codes())
				);
			}
			let ntok = tokens.base_tokens().len();
			let tree = parser::parse(&tokens);
			if let Some(errors) = tree.errors(&tokens)
			{
				return format!(
					"parseerr codes={}\tntok={}",
					crate::util::codes_to_string(&errors.codes()),
					ntok
				);
			}
			let dbg = format!("{:?}", tree);
			let header = tree.build_header();
			let hdbg = format!("{:?}", header);
			format!("ok\tntok={}\t{}\t{}", ntok, dbg, hdbg)
		});
		println!("{}\t{}", id, res);
	}
}

/// `delta-total` (C15): everything the second-generation front end offers, on
/// arbitrary bytes: lex, token dump, parse, errors, header, tree and header dumps.
/// Fields: ntok, nodes, header nodes, lexer codes, parser codes, dump sizes.
pub fn total_stream(casefile: &str)
{
	for (id, payload) in crate::util::read_cases(casefile)
	{
		let res = crate::util::guarded(move || {
			let tokens = lexer::lex(&payload, "case.pn");
			let ntok = tokens.base_tokens().len();
			let lexcodes = tokens.errors().map(|e| e.codes()).unwrap_or_default();
			let source = std::str::from_utf8(&payload).ok();
			let mut xml = Vec::new();
			if !lexcodes.is_empty()
			{
				// main.rs stops here: a module with lexical errors is never parsed
				return format!(
					"lexerr\tntok={}\tlex={}\txml={:?}",
					ntok,
					crate::util::codes_to_string(&lexcodes),
					xml
				);
			}
			if let Some(source) = source
			{
				xml.push(tokens.as_xml(source).map(|l| l.len() + 1).sum::<usize>());
			}
			let kinds: Vec<String> =
				tokens.base_tokens().iter().map(|t| format!("{}", *t as u8)).collect();
			let kinds = kinds.join(" ");
			let tree = parser::parse(&tokens);
			let nerrors = tree.errors(&tokens).map(|e| e.errors.len()).unwrap_or(0);
			let parsecodes = tree.errors(&tokens).map(|e| e.codes()).unwrap_or_default();
			if !parsecodes.is_empty()
			{
				// main.rs stops here: no header, no dumps for a module with syntax errors
				// (build_header asserts that there are none)
				return format!(
					"parseerr\tntok={}\tnodes={}\tdecls={}\tparse={}\txml={:?}\tnerr={}\tkinds={}",
					ntok,
					tree.num_parse_nodes(),
					tree.num_declarations(),
					crate::util::codes_to_string(&parsecodes),
					xml,
					nerrors,
					kinds
				);
			}
			let header = tree.build_header();
			if let Some(source) = source
			{
				xml.push(tree.as_xml(&tokens, source).map(|l| l.len() + 1).sum::<usize>());
				xml.push(header.as_xml(&tokens, source).map(|l| l.len() + 1).sum::<usize>());
			}
			format!(
				"ok\tntok={}\tnodes={}\thdr={}\tdecls={}\tparse=[]\txml={:?}\tnerr=0\tkinds={}",
				ntok,
				tree.num_parse_nodes(),
				header.num_parse_nodes(),
				tree.num_declarations(),
				xml,
				kinds
			)
		});
		println!("{}\t{}", id, res);
	}
}

/// Canonical token line shared by both lexers and both models:
/// "Kind value type start end line col;" per token.
pub fn lex_delta_line(src: &[u8]) -> String
{
	use penne::delta::lexer::tokens::TokenId;
	use penne::delta::lexer::{BaseToken, ValueTypeKeyword};
	use penne::delta::parser::parse_node;
	let tokens = lexer::lex(src, "f");
	let base = tokens.base_tokens();
	let codes: Vec<u16> = tokens.errors().map(|e| e.codes()).unwrap_or_default();
	let mut nerr = 0;
	let mut out = String::new();
	let mut n = base.len();
	let mut nend = 0;
	while n > 0 && base[n - 1] == BaseToken::EndOfSource
	{
		n -= 1;
		nend += 1;
	}
	for i in 0..n
	{
		let id: TokenId = parse_node::TokenId(parse_node::U24::new(i)).into();
		let bt = base[i];
		let vap = tokens.get_value_type_and_payload(id);
		let loc = tokens.get_location(id);
		let vt = vap.value_type();
		let payload = tokens.get_integer_payload(vap.payload_id());
		let (kind, value) = if bt == BaseToken::Error
		{
			let c = codes.get(nerr).copied().unwrap_or(9999);
			nerr += 1;
			("Error".to_string(), c as u128)
		}
		else
		{
			(format!("{:?}", bt), payload.unwrap_or(0))
		};
		let vts = if vt == ValueTypeKeyword::NoKeyword
		{
			"-".to_string()
		}
		else
		{
			format!("{:?}", vt)
		};
		out.push_str(&format!(
			"{} {} {} {} {} {} {};",
			kind, value, vts, loc.span.start, loc.span.end, loc.line_number, loc.line_offset
		));
	}
	format!("{}|{}", out, nend)
}

pub fn lex_alpha_line(src: &str) -> String
{
	use penne::alpha::lexer::Token;
	let tokens = penne::alpha::lexer::lex(src, "f");
	let mut out = String::new();
	for t in &tokens
	{
		let (kind, value, vts, bytes): (String, u128, String, Option<Vec<u8>>) = match &t.result
		{
			Err(e) =>
			{
				let code = penne::alpha::error::Error::Lexical {
					error: *e,
					expectation: String::new(),
					location: t.location.clone(),
				}
				.code();
				("Error".to_string(), code as u128, "-".to_string(), None)
			}
			Ok(Token::Identifier(_)) => ("Identifier".into(), 0, "-".into(), None),
			Ok(Token::Builtin(_)) => ("Builtin".into(), 0, "-".into(), None),
			Ok(Token::NakedDecimal(v)) => ("NakedDecimal".into(), *v, "-".into(), None),
			Ok(Token::BitInteger(v)) => ("BitInteger".into(), *v, "-".into(), None),
			Ok(Token::SuffixedInteger { value, suffix_type }) =>
			{
				("SuffixedInteger".into(), *value, format!("{:?}", suffix_type), None)
			}
			Ok(Token::CharLiteral(v)) => ("CharLiteral".into(), *v as u128, "-".into(), None),
			Ok(Token::Bool(b)) => ("BoolLiteral".into(), *b as u128, "-".into(), None),
			Ok(Token::StringLiteral { bytes }) =>
			{
				("StringLiteral".into(), 0, "-".into(), Some(bytes.clone()))
			}
			Ok(Token::Type(vt)) => ("ValueTypeKeyword".into(), 0, format!("{:?}", vt), None),
			Ok(other) => (format!("{:?}", other), 0, "-".into(), None),
		};
		out.push_str(&format!(
			"{} {} {} {} {} {} {}",
			kind, value, vts, t.location.span.start, t.location.span.end,
			t.location.line_number, t.location.line_offset
		));
		if let Some(b) = bytes
		{
			out.push_str(" #");
			for x in b
			{
				out.push_str(&format!("{:02x}", x));
			}
		}
		out.push(';');
	}
	out
}

/// `lex`: both lexers on the same bytes (the first generation only on valid UTF-8).
pub fn lex_stream(casefile: &str)
{
	for (id, payload) in crate::util::read_cases(casefile)
	{
		let p2 = payload.clone();
		let d = crate::util::guarded(move || lex_delta_line(&p2));
		let a = match String::from_utf8(payload)
		{
			Ok(s) => crate::util::guarded(move || lex_alpha_line(&s)),
			Err(_) => "not-utf8".to_string(),
		};
		println!("{}\t{}\t{}", id, a, d);
	}
}

/// `fuzz`: run the real token fuzzer (no injected mistakes) and lex its output
/// with both lexers.  Case payload: requested kilobytes.
pub fn fuzz_stream(casefile: &str)
{
	for (id, payload) in crate::util::read_cases(casefile)
	{
		let kb: usize = String::from_utf8_lossy(&payload).trim().parse().unwrap_or(1);
		let res = crate::util::guarded(move || {
			let capacity = kb * 1096;
			let mut buffer = String::with_capacity(capacity);
			fuzzer::fill_to_capacity_with_tokens(95, &mut buffer, 0).unwrap();
			let d = lexer::lex(buffer.as_bytes(), "f");
			let derr: Vec<u16> = d.errors().map(|e| e.codes()).unwrap_or_default();
			let a = penne::alpha::lexer::lex(&buffer, "f");
			let mut aerr: Vec<String> = Vec::new();
			let mut first_bad: Option<usize> = None;
			for t in &a
			{
				if let Err(e) = &t.result
				{
					aerr.push(format!("{:?}", e));
					if first_bad.is_none()
					{
						first_bad = Some(t.location.span.start);
					}
				}
			}
			let excerpt = match first_bad
			{
				Some(p) =>
				{
					let chars: Vec<char> = buffer.chars().collect();
					let s = p.saturating_sub(30);
					let e = (p + 30).min(chars.len());
					crate::util::escape(chars[s..e].iter().collect::<String>().as_bytes())
				}
				None => String::new(),
			};
			// spelling facts the model proves (Proofs/FuzzerProofs.v token_spelled): identifiers and
			// builtins have at most 38 characters and contain an upper-case letter or `_`
			let mut maxident = 0usize;
			let mut unmarked = 0usize;
			let mut kinds = std::collections::HashSet::new();
			for t in &a
			{
				if let Ok(tok) = &t.result
				{
					kinds.insert(std::mem::discriminant(tok));
					let name = match tok
					{
						penne::alpha::lexer::Token::Identifier(n) => Some(n.as_str()),
						penne::alpha::lexer::Token::Builtin(n) => Some(n.as_str()),
						_ => None,
					};
					if let Some(n) = name
					{
						let n = n.trim_end_matches('!');
						maxident = maxident.max(n.chars().count());
						if !n.chars().any(|c| c.is_ascii_uppercase() || c == '_') && n != "return"
						{
							unmarked += 1;
						}
					}
				}
			}
			format!(
				"len={} kb={} delta_errors={} alpha_errors={} delta_tokens={} alpha_tokens={} maxident={} unmarked={} kinds={} utf8={}\t{}\t{}",
				buffer.len(),
				kb,
				crate::util::codes_to_string(&derr),
				aerr.len(),
				d.base_tokens().len(),
				a.len(),
				maxident,
				unmarked,
				kinds.len(),
				std::str::from_utf8(buffer.as_bytes()).is_ok(),
				excerpt,
				if derr.is_empty() && aerr.is_empty() { String::new() } else { crate::util::escape(buffer.as_bytes()) }
			)
		});
		println!("{}\t{}", id, res);
	}
}
