//! Streams for the second-generation front end (C14..C17): `delta-tree` prints
//! errors, the Debug form of the node array and of the extracted header, and
//! the XML dumps.
use penne::delta::*;

pub fn stream(casefile: &str)
{
	for (id, payload) in crate::util::read_cases(casefile)
	{
		let res = crate::util::guarded(move || {
			let tokens = lexer::lex(&payload, "case.pn");
			if let Some(errors) = tokens.errors()
			{
				return format!(
					"lexerr codes={}",
					crate::util::codes_to_string(&errors.codes())
				);
			}
			let ntok = tokens.base_tokens().len();
			let tree = parser::parse(&tokens);
			if let Some(errors) = tree.errors(&tokens)
			{
				return format!(
					"parseerr codes={}\tntok={}",
					crate::util::codes_to_string(&errors.codes()),
					ntok
				);
			}
			let dbg = format!("{:?}", tree);
			let header = tree.build_header();
			let hdbg = format!("{:?}", header);
			format!("ok\tntok={}\t{}\t{}", ntok, dbg, hdbg)
		});
		println!("{}\t{}", id, res);
	}
}
