//! Serialisers for the differential test of the Penne parsers against the Coq
//! reference (theories/Model/RefParser.v).  Plain functions, no I/O.
//!
//! * `show_alpha`      : first-generation AST  -> canonical `show_module` text
//! * `tokens_for_model`: first-generation tokens -> text for the OCaml driver
//! * `show_delta_xml`  : second-generation XML dump -> canonical `show_module` text
//!
//! INTERNING.  Names are printed as `n<id>`.  `"return"` is always 0; every other
//! name gets the next free id at its first occurrence IN SOURCE ORDER.  The three
//! functions are deterministic and agree with each other without sharing state:
//! `tokens_for_model` interns in token order, `show_alpha` and `show_delta_xml`
//! intern while emitting the text, and the text is emitted in source order
//! (name, type, value / name, parameters, return type, body ...).  The `_with`
//! variants take an explicit `Interner` so that one table (e.g. the one built from
//! the tokens) can be shared; this keeps the texts comparable even when the trees
//! differ.  Builtin names are interned WITHOUT the exclamation mark.

use penne::alpha::common as c;
use penne::alpha::lexer::{LexedToken, Token};
use std::collections::HashMap;
use std::fmt::Write;

// ---------------------------------------------------------------------------
// Interner
// ---------------------------------------------------------------------------

#[derive(Debug, Clone)]
pub struct Interner
{
	map: HashMap<String, u32>,
	names: Vec<String>,
}

impl Interner
{
	pub fn new() -> Interner
	{
		let mut x = Interner {
			map: HashMap::new(),
			names: Vec::new(),
		};
		x.intern("return");
		x
	}

	pub fn intern(&mut self, name: &str) -> u32
	{
		let name = name.strip_suffix('!').unwrap_or(name);
		if let Some(&id) = self.map.get(name)
		{
			return id;
		}
		let id = self.names.len() as u32;
		self.names.push(name.to_string());
		self.map.insert(name.to_string(), id);
		id
	}

	pub fn names(&self) -> &[String]
	{
		&self.names
	}
}

// ---------------------------------------------------------------------------
// The tree of the reference (RefParser.v: ty, expr, reference, stmt, decl)
// ---------------------------------------------------------------------------

#[derive(Debug, Clone, PartialEq)]
pub enum Ty
{
	Void,
	Prim(&'static str),
	Named(String),
	Array(u128, Box<Ty>),
	ArrayNamed(String, Box<Ty>),
	Slice(Box<Ty>),
	Endless(Box<Ty>),
	Arraylike(Box<Ty>),
	Pointer(Box<Ty>),
	View(Box<Ty>),
}

#[derive(Debug, Clone, PartialEq)]
pub enum Step
{
	Element(Expr),
	Member(String),
}

#[derive(Debug, Clone, PartialEq)]
pub struct Ref
{
	pub depth: u32,
	pub base: String,
	pub steps: Vec<Step>,
}

#[derive(Debug, Clone, PartialEq)]
pub enum Expr
{
	Binary(String, Box<Expr>, Box<Expr>),
	Unary(String, Box<Expr>),
	Bool(bool),
	Signed(i128, Option<&'static str>),
	Bits(u128, Option<&'static str>),
	Str(Vec<u8>),
	Array(Vec<Expr>),
	Structural(String, Vec<(String, Expr)>),
	Paren(Box<Expr>),
	Deref(Ref),
	BitCast(Box<Expr>),
	TypeCast(Box<Expr>, Ty),
	Length(Ref),
	SizeOf(Ty),
	Call(bool, String, Vec<Expr>),
}

#[derive(Debug, Clone, PartialEq)]
pub enum Stmt
{
	Var(String, Option<Ty>, Option<Expr>),
	Assign(Ref, Expr),
	Call(bool, String, Vec<Expr>),
	Loop,
	Goto(String),
	Label(String),
	If(String, Expr, Expr, Box<Stmt>, Option<Box<Stmt>>),
	Block(Vec<Stmt>),
}

#[derive(Debug, Clone, PartialEq)]
pub enum Decl
{
	Import(Vec<u8>),
	Const
	{
		public: bool,
		external: bool,
		name: String,
		ty: Ty,
		value: Expr,
	},
	Fn
	{
		public: bool,
		external: bool,
		name: String,
		params: Vec<(String, Ty)>,
		ret: Ty,
		body: Option<(Vec<Stmt>, Option<Expr>)>,
	},
	Struct
	{
		public: bool,
		external: bool,
		kind: &'static str,
		name: String,
		members: Vec<(String, Ty)>,
	},
}

// ---------------------------------------------------------------------------
// Canonical text (must be byte-identical to RefParser.show_module)
// ---------------------------------------------------------------------------

fn sname(out: &mut String, i: &mut Interner, name: &str)
{
	let _ = write!(out, "n{}", i.intern(name));
}

fn show_ty(out: &mut String, i: &mut Interner, t: &Ty)
{
	match t
	{
		Ty::Void => out.push_str("void"),
		Ty::Prim(p) => out.push_str(p),
		Ty::Named(n) =>
		{
			out.push_str("(named ");
			sname(out, i, n);
			out.push(')');
		}
		Ty::Array(len, e) =>
		{
			let _ = write!(out, "(array {} ", len);
			show_ty(out, i, e);
			out.push(')');
		}
		Ty::ArrayNamed(n, e) =>
		{
			out.push_str("(arrayn ");
			sname(out, i, n);
			out.push(' ');
			show_ty(out, i, e);
			out.push(')');
		}
		Ty::Slice(e) => show_ty1(out, i, "slice", e),
		Ty::Endless(e) => show_ty1(out, i, "endless", e),
		Ty::Arraylike(e) => show_ty1(out, i, "arraylike", e),
		Ty::Pointer(e) => show_ty1(out, i, "ptr", e),
		Ty::View(e) => show_ty1(out, i, "view", e),
	}
}

fn show_ty1(out: &mut String, i: &mut Interner, head: &str, e: &Ty)
{
	let _ = write!(out, "({} ", head);
	show_ty(out, i, e);
	out.push(')');
}

fn show_ref(out: &mut String, i: &mut Interner, r: &Ref)
{
	let _ = write!(out, "(ref {} ", r.depth);
	sname(out, i, &r.base);
	for s in &r.steps
	{
		out.push(' ');
		match s
		{
			Step::Element(e) =>
			{
				out.push_str("(elem ");
				show_expr(out, i, e);
				out.push(')');
			}
			Step::Member(m) =>
			{
				out.push_str("(mem ");
				sname(out, i, m);
				out.push(')');
			}
		}
	}
	out.push(')');
}

fn show_opt_prim(out: &mut String, t: &Option<&'static str>)
{
	match t
	{
		Some(p) => out.push_str(p),
		None => out.push('_'),
	}
}

fn show_args(out: &mut String, i: &mut Interner, head: &str, n: &str, args: &[Expr])
{
	let _ = write!(out, "({} ", head);
	sname(out, i, n);
	for a in args
	{
		out.push(' ');
		show_expr(out, i, a);
	}
	out.push(')');
}

fn show_expr(out: &mut String, i: &mut Interner, e: &Expr)
{
	match e
	{
		Expr::Binary(op, l, r) =>
		{
			let _ = write!(out, "(bin {} ", op);
			show_expr(out, i, l);
			out.push(' ');
			show_expr(out, i, r);
			out.push(')');
		}
		Expr::Unary(op, e) =>
		{
			let _ = write!(out, "(un {} ", op);
			show_expr(out, i, e);
			out.push(')');
		}
		Expr::Bool(b) =>
		{
			let _ = write!(out, "(bool {})", b);
		}
		Expr::Signed(v, t) =>
		{
			let _ = write!(out, "(sint {} ", v);
			show_opt_prim(out, t);
			out.push(')');
		}
		Expr::Bits(v, t) =>
		{
			let _ = write!(out, "(bits {} ", v);
			show_opt_prim(out, t);
			out.push(')');
		}
		Expr::Str(bytes) =>
		{
			out.push_str("(str");
			for b in bytes
			{
				let _ = write!(out, " {}", b);
			}
			out.push(')');
		}
		Expr::Array(es) =>
		{
			out.push_str("(arr");
			for e in es
			{
				out.push(' ');
				show_expr(out, i, e);
			}
			out.push(')');
		}
		Expr::Structural(n, ms) =>
		{
			out.push_str("(structlit ");
			sname(out, i, n);
			for (m, e) in ms
			{
				out.push_str(" (");
				sname(out, i, m);
				out.push(' ');
				show_expr(out, i, e);
				out.push(')');
			}
			out.push(')');
		}
		Expr::Paren(e) =>
		{
			out.push_str("(paren ");
			show_expr(out, i, e);
			out.push(')');
		}
		Expr::Deref(r) =>
		{
			out.push_str("(deref ");
			show_ref(out, i, r);
			out.push(')');
		}
		Expr::BitCast(e) =>
		{
			out.push_str("(bitcast ");
			show_expr(out, i, e);
			out.push(')');
		}
		Expr::TypeCast(e, t) =>
		{
			out.push_str("(cast ");
			show_expr(out, i, e);
			out.push(' ');
			show_ty(out, i, t);
			out.push(')');
		}
		Expr::Length(r) =>
		{
			out.push_str("(len ");
			show_ref(out, i, r);
			out.push(')');
		}
		Expr::SizeOf(t) =>
		{
			out.push_str("(sizeof ");
			show_ty(out, i, t);
			out.push(')');
		}
		Expr::Call(b, n, args) =>
		{
			show_args(out, i, if *b { "bcall" } else { "call" }, n, args)
		}
	}
}

fn show_stmt(out: &mut String, i: &mut Interner, s: &Stmt)
{
	match s
	{
		Stmt::Var(n, t, v) =>
		{
			out.push_str("(var ");
			sname(out, i, n);
			out.push(' ');
			match t
			{
				Some(t) => show_ty(out, i, t),
				None => out.push('_'),
			}
			out.push(' ');
			match v
			{
				Some(v) => show_expr(out, i, v),
				None => out.push('_'),
			}
			out.push(')');
		}
		Stmt::Assign(r, v) =>
		{
			out.push_str("(assign ");
			show_ref(out, i, r);
			out.push(' ');
			show_expr(out, i, v);
			out.push(')');
		}
		Stmt::Call(b, n, args) =>
		{
			show_args(out, i, if *b { "sbcall" } else { "scall" }, n, args)
		}
		Stmt::Loop => out.push_str("(loop)"),
		Stmt::Goto(l) =>
		{
			out.push_str("(goto ");
			sname(out, i, l);
			out.push(')');
		}
		Stmt::Label(l) =>
		{
			out.push_str("(label ");
			sname(out, i, l);
			out.push(')');
		}
		Stmt::If(op, l, r, th, el) =>
		{
			let _ = write!(out, "(if {} ", op);
			show_expr(out, i, l);
			out.push(' ');
			show_expr(out, i, r);
			out.push(' ');
			show_stmt(out, i, th);
			out.push(' ');
			match el
			{
				Some(el) => show_stmt(out, i, el),
				None => out.push('_'),
			}
			out.push(')');
		}
		Stmt::Block(ss) =>
		{
			out.push_str("(block");
			for s in ss
			{
				out.push(' ');
				show_stmt(out, i, s);
			}
			out.push(')');
		}
	}
}

fn show_flags(out: &mut String, public: bool, external: bool)
{
	out.push_str("(flags");
	if public
	{
		out.push_str(" pub");
	}
	if external
	{
		out.push_str(" extern");
	}
	out.push(')');
}

fn show_typed_names(out: &mut String, i: &mut Interner, head: &str, ms: &[(String, Ty)])
{
	let _ = write!(out, "({}", head);
	for (n, t) in ms
	{
		out.push_str(" (");
		sname(out, i, n);
		out.push(' ');
		show_ty(out, i, t);
		out.push(')');
	}
	out.push(')');
}

fn show_decl(out: &mut String, i: &mut Interner, d: &Decl)
{
	match d
	{
		Decl::Import(bytes) =>
		{
			out.push_str("(import");
			for b in bytes
			{
				let _ = write!(out, " {}", b);
			}
			out.push(')');
		}
		Decl::Const {
			public,
			external,
			name,
			ty,
			value,
		} =>
		{
			out.push_str("(const ");
			show_flags(out, *public, *external);
			out.push(' ');
			sname(out, i, name);
			out.push(' ');
			show_ty(out, i, ty);
			out.push(' ');
			show_expr(out, i, value);
			out.push(')');
		}
		Decl::Fn {
			public,
			external,
			name,
			params,
			ret,
			body,
		} =>
		{
			out.push_str(if body.is_some() { "(fn " } else { "(fnhead " });
			show_flags(out, *public, *external);
			out.push(' ');
			sname(out, i, name);
			out.push(' ');
			show_typed_names(out, i, "params", params);
			out.push(' ');
			show_ty(out, i, ret);
			if let Some((ss, rv)) = body
			{
				out.push_str(" (body");
				for s in ss
				{
					out.push(' ');
					show_stmt(out, i, s);
				}
				out.push_str(") (ret ");
				match rv
				{
					Some(e) => show_expr(out, i, e),
					None => out.push('_'),
				}
				out.push(')');
			}
			out.push(')');
		}
		Decl::Struct {
			public,
			external,
			kind,
			name,
			members,
		} =>
		{
			let _ = write!(out, "({} ", kind);
			show_flags(out, *public, *external);
			out.push(' ');
			sname(out, i, name);
			out.push(' ');
			show_typed_names(out, i, "members", members);
			out.push(')');
		}
	}
}

pub fn show_tree_with(decls: &[Decl], i: &mut Interner) -> String
{
	let mut out = String::new();
	for d in decls
	{
		show_decl(&mut out, i, d);
		out.push('\n');
	}
	out
}

pub fn show_tree(decls: &[Decl]) -> String
{
	show_tree_with(decls, &mut Interner::new())
}

// ---------------------------------------------------------------------------
// 1. First-generation AST
// ---------------------------------------------------------------------------

type R<T> = Result<T, String>;

fn prim_name(vt: &c::ValueType) -> Option<&'static str>
{
	use penne::alpha::value_type::ValueType as V;
	Some(match vt
	{
		V::Int8 => "i8",
		V::Int16 => "i16",
		V::Int32 => "i32",
		V::Int64 => "i64",
		V::Int128 => "i128",
		V::Uint8 => "u8",
		V::Uint16 => "u16",
		V::Uint32 => "u32",
		V::Uint64 => "u64",
		V::Uint128 => "u128",
		V::Usize => "usize",
		V::Char8 => "char8",
		V::Bool => "bool",
		_ => return None,
	})
}

fn a_ident(x: &c::Identifier) -> R<String>
{
	if x.resolution_id != 0
	{
		return Err(format!("identifier '{}' is already resolved", x.name));
	}
	Ok(x.name.strip_suffix('!').unwrap_or(&x.name).to_string())
}

fn a_pident(x: &c::Poisonable<c::Identifier>) -> R<String>
{
	match x
	{
		Ok(x) => a_ident(x),
		Err(_) => Err("poisoned identifier".to_string()),
	}
}

fn a_ty(vt: &c::ValueType) -> R<Ty>
{
	use penne::alpha::value_type::ValueType as V;
	if let Some(p) = prim_name(vt)
	{
		return Ok(Ty::Prim(p));
	}
	Ok(match vt
	{
		V::Void => Ty::Void,
		V::Array {
			element_type,
			length,
		} => Ty::Array(*length as u128, Box::new(a_ty(element_type)?)),
		V::ArrayWithNamedLength {
			element_type,
			named_length,
		} => Ty::ArrayNamed(a_ident(named_length)?, Box::new(a_ty(element_type)?)),
		V::Slice { element_type } => Ty::Slice(Box::new(a_ty(element_type)?)),
		V::EndlessArray { element_type } => Ty::Endless(Box::new(a_ty(element_type)?)),
		V::Arraylike { element_type } => Ty::Arraylike(Box::new(a_ty(element_type)?)),
		V::Pointer { deref_type } => Ty::Pointer(Box::new(a_ty(deref_type)?)),
		V::View { deref_type } => Ty::View(Box::new(a_ty(deref_type)?)),
		V::UnresolvedStructOrWord {
			identifier: Some(identifier),
		} => Ty::Named(a_ident(identifier)?),
		V::UnresolvedStructOrWord { identifier: None } =>
		{
			return Err("anonymous unresolved structure type".to_string());
		}
		V::SlicePointer { .. } => return Err("SlicePointer type (not a parser output)".to_string()),
		V::Struct { .. } | V::Word { .. } =>
		{
			return Err("resolved Struct/Word type (not a parser output)".to_string());
		}
		_ => return Err("unexpected value type".to_string()),
	})
}

fn a_pty(vt: &c::Poisonable<c::ValueType>) -> R<Ty>
{
	match vt
	{
		Ok(vt) => a_ty(vt),
		Err(_) => Err("poisoned type".to_string()),
	}
}

fn a_lit_type(vt: &Option<c::Poisonable<c::ValueType>>) -> R<Option<&'static str>>
{
	match vt
	{
		None => Ok(None),
		Some(Ok(vt)) => match prim_name(vt)
		{
			Some(p) => Ok(Some(p)),
			None => Err("literal with a non-primitive type".to_string()),
		},
		Some(Err(_)) => Err("poisoned literal type".to_string()),
	}
}

fn a_ref(r: &c::Reference) -> R<Ref>
{
	let mut steps = Vec::new();
	for s in &r.steps
	{
		steps.push(match s
		{
			c::ReferenceStep::Element {
				argument,
				is_endless: None,
			} => Step::Element(a_expr(argument)?),
			c::ReferenceStep::Member {
				member,
				offset: None,
			} => Step::Member(a_ident(member)?),
			other =>
			{
				return Err(format!("reference step {:?} is not a parser output", other));
			}
		});
	}
	Ok(Ref {
		depth: u32::from(r.address_depth),
		base: a_pident(&r.base)?,
		steps,
	})
}

fn a_exprs(es: &[c::Expression]) -> R<Vec<Expr>>
{
	es.iter().map(a_expr).collect()
}

fn a_call(name: &c::Identifier, builtin: &Option<c::Builtin>) -> R<(bool, String)>
{
	let is_builtin = builtin.is_some() || name.name.ends_with('!');
	Ok((is_builtin, a_ident(name)?))
}

fn a_expr(e: &c::Expression) -> R<Expr>
{
	use c::Expression as E;
	Ok(match e
	{
		E::Binary {
			op, left, right, ..
		} => Expr::Binary(format!("{:?}", op), Box::new(a_expr(left)?), Box::new(a_expr(right)?)),
		E::Unary { op, expression, .. } => Expr::Unary(format!("{:?}", op), Box::new(a_expr(expression)?)),
		E::BooleanLiteral { value, .. } => Expr::Bool(*value),
		E::SignedIntegerLiteral {
			value, value_type, ..
		} => Expr::Signed(*value, a_lit_type(value_type)?),
		E::BitIntegerLiteral {
			value, value_type, ..
		} => Expr::Bits(*value, a_lit_type(value_type)?),
		E::StringLiteral { bytes, .. } => Expr::Str(bytes.clone()),
		E::ArrayLiteral {
			array,
			element_type: None,
		} => Expr::Array(a_exprs(&array.elements)?),
		E::ArrayLiteral {
			element_type: Some(_),
			..
		} => return Err("typed array literal (not a parser output)".to_string()),
		E::Structural {
			members,
			structural_type,
			..
		} =>
		{
			let name = match a_pty(structural_type)?
			{
				Ty::Named(n) => n,
				_ => return Err("structural literal without a name".to_string()),
			};
			let mut ms = Vec::new();
			for m in members
			{
				if m.offset.is_some()
				{
					return Err("resolved member offset".to_string());
				}
				ms.push((a_pident(&m.name)?, a_expr(&m.expression)?));
			}
			Expr::Structural(name, ms)
		}
		E::Parenthesized { inner, .. } => Expr::Paren(Box::new(a_expr(inner)?)),
		E::Deref {
			reference,
			deref_type: None,
		} => Expr::Deref(a_ref(reference)?),
		E::Deref {
			deref_type: Some(_), ..
		} => return Err("typed Deref (not a parser output)".to_string()),
		E::Autocoerce { .. } => return Err("Autocoerce (not a parser output)".to_string()),
		E::BitCast {
			expression,
			coerced_type: None,
			..
		} => Expr::BitCast(Box::new(a_expr(expression)?)),
		E::BitCast {
			coerced_type: Some(_),
			..
		} => return Err("typed BitCast (not a parser output)".to_string()),
		E::TypeCast {
			expression,
			coerced_type,
			..
		} => Expr::TypeCast(Box::new(a_expr(expression)?), a_ty(coerced_type)?),
		E::LengthOfArray { reference, .. } => Expr::Length(a_ref(reference)?),
		E::SizeOf { queried_type, .. } => Expr::SizeOf(a_ty(queried_type)?),
		E::FunctionCall {
			name,
			builtin,
			arguments,
			return_type: None,
		} =>
		{
			let (b, n) = a_call(name, builtin)?;
			Expr::Call(b, n, a_exprs(arguments)?)
		}
		E::FunctionCall {
			return_type: Some(_),
			..
		} => return Err("typed FunctionCall (not a parser output)".to_string()),
		E::Poison(_) => return Err("poisoned expression".to_string()),
	})
}

fn a_stmt(s: &c::Statement) -> R<Stmt>
{
	use c::Statement as S;
	Ok(match s
	{
		S::Declaration {
			name,
			value,
			value_type,
			..
		} =>
		{
			let n = a_ident(name)?;
			let t = match value_type
			{
				Some(t) => Some(a_pty(t)?),
				None => None,
			};
			let v = match value
			{
				Some(v) => Some(a_expr(v)?),
				None => None,
			};
			Stmt::Var(n, t, v)
		}
		S::Assignment {
			reference, value, ..
		} => Stmt::Assign(a_ref(reference)?, a_expr(value)?),
		S::MethodCall {
			name,
			builtin,
			arguments,
		} =>
		{
			let (b, n) = a_call(name, builtin)?;
			Stmt::Call(b, n, a_exprs(arguments)?)
		}
		S::Loop { .. } => Stmt::Loop,
		S::Goto { label, .. } => Stmt::Goto(a_ident(label)?),
		S::Label { label, .. } => Stmt::Label(a_ident(label)?),
		S::If {
			condition,
			then_branch,
			else_branch,
			..
		} =>
		{
			let l = a_expr(&condition.left)?;
			let r = a_expr(&condition.right)?;
			let th = a_stmt(then_branch)?;
			let el = match else_branch
			{
				Some(el) => Some(Box::new(a_stmt(&el.branch)?)),
				None => None,
			};
			Stmt::If(format!("{:?}", condition.op), l, r, Box::new(th), el)
		}
		S::Block(block) => Stmt::Block(block.statements.iter().map(a_stmt).collect::<R<Vec<_>>>()?),
		S::Poison(_) => return Err("poisoned statement".to_string()),
	})
}

fn a_typed_names<'a>(
	xs: impl Iterator<Item = (&'a c::Poisonable<c::Identifier>, &'a c::Poisonable<c::ValueType>)>,
) -> R<Vec<(String, Ty)>>
{
	let mut out = Vec::new();
	for (n, t) in xs
	{
		let n = a_pident(n)?;
		out.push((n, a_pty(t)?));
	}
	Ok(out)
}

fn a_flags(flags: &enumset::EnumSet<c::DeclarationFlag>) -> R<(bool, bool)>
{
	use c::DeclarationFlag as F;
	if flags.contains(F::Main) || flags.contains(F::Forward)
	{
		return Err("Main/Forward flag (not a parser output)".to_string());
	}
	Ok((flags.contains(F::Public), flags.contains(F::External)))
}

fn a_decl(d: &c::Declaration) -> R<Decl>
{
	use c::Declaration as D;
	use penne::alpha::value_type::ValueType as V;
	Ok(match d
	{
		D::Import { filename, .. } => Decl::Import(filename.as_bytes().to_vec()),
		D::Constant {
			name,
			value,
			value_type,
			flags,
			depth: None,
			..
		} =>
		{
			let (public, external) = a_flags(flags)?;
			let name = a_ident(name)?;
			let ty = a_pty(value_type)?;
			Decl::Const {
				public,
				external,
				name,
				ty,
				value: a_expr(value)?,
			}
		}
		D::Constant { depth: Some(_), .. } => return Err("constant with a depth".to_string()),
		D::Function {
			name,
			parameters,
			body,
			return_type,
			flags,
			..
		} =>
		{
			let (public, external) = a_flags(flags)?;
			let name = a_ident(name)?;
			let params = a_typed_names(parameters.iter().map(|p| (&p.name, &p.value_type)))?;
			let ret = a_pty(return_type)?;
			let body = match body
			{
				Ok(body) => body,
				Err(_) => return Err("poisoned function body".to_string()),
			};
			let ss = body.statements.iter().map(a_stmt).collect::<R<Vec<_>>>()?;
			let rv = match &body.return_value
			{
				Some(e) => Some(a_expr(e)?),
				None => None,
			};
			Decl::Fn {
				public,
				external,
				name,
				params,
				ret,
				body: Some((ss, rv)),
			}
		}
		D::FunctionHead {
			name,
			parameters,
			return_type,
			flags,
			..
		} =>
		{
			let (public, external) = a_flags(flags)?;
			let name = a_ident(name)?;
			let params = a_typed_names(parameters.iter().map(|p| (&p.name, &p.value_type)))?;
			Decl::Fn {
				public,
				external,
				name,
				params,
				ret: a_pty(return_type)?,
				body: None,
			}
		}
		D::Structure {
			name,
			members,
			structural_type,
			flags,
			depth: None,
			..
		} =>
		{
			let (public, external) = a_flags(flags)?;
			let opaque = flags.contains(c::DeclarationFlag::OpaqueStruct);
			let kind = match structural_type
			{
				Ok(V::Struct { .. }) if opaque => "opaque",
				Ok(V::Struct { .. }) => "struct",
				Ok(V::Word { size_in_bytes, .. }) if !opaque => match size_in_bytes
				{
					1 => "word8",
					2 => "word16",
					4 => "word32",
					8 => "word64",
					16 => "word128",
					_ => return Err("word of unknown size".to_string()),
				},
				_ => return Err("unexpected structural type".to_string()),
			};
			let name = a_ident(name)?;
			let members = a_typed_names(members.iter().map(|m| (&m.name, &m.value_type)))?;
			Decl::Struct {
				public,
				external,
				kind,
				name,
				members,
			}
		}
		D::Structure { depth: Some(_), .. } => return Err("structure with a depth".to_string()),
		D::Poison(_) => return Err("poisoned declaration".to_string()),
	})
}

/// The first-generation AST as a reference tree (Err on any Poison and on any
/// node that only later compiler stages create).
pub fn alpha_tree(decls: &[c::Declaration]) -> R<Vec<Decl>>
{
	decls.iter().map(a_decl).collect()
}

pub fn show_alpha_with(decls: &[c::Declaration], i: &mut Interner) -> R<String>
{
	Ok(show_tree_with(&alpha_tree(decls)?, i))
}

pub fn show_alpha(decls: &[c::Declaration]) -> R<String>
{
	show_alpha_with(decls, &mut Interner::new())
}

// ---------------------------------------------------------------------------
// 2. Tokens for the Coq model
// ---------------------------------------------------------------------------

fn hex(bytes: &[u8]) -> String
{
	let mut s = String::from("x");
	for b in bytes
	{
		let _ = write!(s, "{:02x}", b);
	}
	s
}

/// One token per line, four space-separated fields:  `Kind V T X`
///   Kind : Debug name of the second-generation BaseToken (ParenLeft ... Identifier, Builtin,
///          NakedDecimal, BitInteger, SuffixedInteger, CharLiteral, BoolLiteral, StringLiteral,
///          ValueTypeKeyword, Fn, Var, ...).  The first generation has no Return token:
///          `return` is `Identifier 0 _ return`.
///   V    : decimal number: interned id (Identifier, Builtin), integer value (NakedDecimal,
///          BitInteger, SuffixedInteger, CharLiteral), 0/1 (BoolLiteral), 0 otherwise
///   T    : void i8 i16 i32 i64 i128 u8 u16 u32 u64 u128 usize char8 bool for ValueTypeKeyword
///          and SuffixedInteger, `_` otherwise
///   X    : the name (Identifier, Builtin; builtin without `!`), `x` followed by two lowercase
///          hex digits per byte (StringLiteral; the empty string is `x`), `_` otherwise
pub fn tokens_for_model_with(tokens: &[LexedToken], i: &mut Interner) -> R<String>
{
	let mut out = String::new();
	for (k, t) in tokens.iter().enumerate()
	{
		let token = match &t.result
		{
			Ok(token) => token,
			Err(e) =>
			{
				return Err(format!(
					"lexical error {:?} at token {} (line {})",
					e, k, t.location.line_number
				));
			}
		};
		let plain = |name: &str| format!("{} 0 _ _\n", name);
		let line = match token
		{
			Token::ParenLeft => plain("ParenLeft"),
			Token::ParenRight => plain("ParenRight"),
			Token::BraceLeft => plain("BraceLeft"),
			Token::BraceRight => plain("BraceRight"),
			Token::BracketLeft => plain("BracketLeft"),
			Token::BracketRight => plain("BracketRight"),
			Token::AngleLeft => plain("AngleLeft"),
			Token::AngleRight => plain("AngleRight"),
			Token::Pipe => plain("Pipe"),
			Token::Ampersand => plain("Ampersand"),
			Token::Caret => plain("Caret"),
			Token::Exclamation => plain("Exclamation"),
			Token::Placeholder => plain("Placeholder"),
			Token::Plus => plain("Plus"),
			Token::Minus => plain("Minus"),
			Token::Times => plain("Times"),
			Token::Divide => plain("Divide"),
			Token::Modulo => plain("Modulo"),
			Token::Colon => plain("Colon"),
			Token::Semicolon => plain("Semicolon"),
			Token::Dot => plain("Dot"),
			Token::Comma => plain("Comma"),
			Token::Assignment => plain("Assignment"),
			Token::Equals => plain("Equals"),
			Token::DoesNotEqual => plain("DoesNotEqual"),
			Token::IsGE => plain("IsGE"),
			Token::IsLE => plain("IsLE"),
			Token::ShiftLeft => plain("ShiftLeft"),
			Token::ShiftRight => plain("ShiftRight"),
			Token::Arrow => plain("Arrow"),
			Token::PipeForType => plain("PipeForType"),
			Token::Dots => plain("Dots"),
			Token::Fn => plain("Fn"),
			Token::Var => plain("Var"),
			Token::Const => plain("Const"),
			Token::If => plain("If"),
			Token::Goto => plain("Goto"),
			Token::Loop => plain("Loop"),
			Token::Else => plain("Else"),
			Token::Cast => plain("Cast"),
			Token::As => plain("As"),
			Token::Import => plain("Import"),
			Token::Pub => plain("Pub"),
			Token::Extern => plain("Extern"),
			Token::Struct => plain("Struct"),
			Token::Word8 => plain("Word8"),
			Token::Word16 => plain("Word16"),
			Token::Word32 => plain("Word32"),
			Token::Word64 => plain("Word64"),
			Token::Word128 => plain("Word128"),
			Token::Identifier(name) => format!("Identifier {} _ {}\n", i.intern(name), name),
			Token::Builtin(name) => format!("Builtin {} _ {}\n", i.intern(name), name),
			Token::NakedDecimal(v) => format!("NakedDecimal {} _ _\n", v),
			Token::BitInteger(v) => format!("BitInteger {} _ _\n", v),
			Token::SuffixedInteger { value, suffix_type } =>
			{
				let t = prim_name(suffix_type).ok_or("suffix is not a primitive type")?;
				format!("SuffixedInteger {} {} _\n", value, t)
			}
			Token::CharLiteral(v) => format!("CharLiteral {} _ _\n", v),
			Token::Bool(v) => format!("BoolLiteral {} _ _\n", u8::from(*v)),
			Token::StringLiteral { bytes } => format!("StringLiteral 0 _ {}\n", hex(bytes)),
			Token::Type(vt) =>
			{
				use penne::alpha::value_type::ValueType as V;
				let t = match vt
				{
					V::Void => "void",
					vt => prim_name(vt).ok_or("type keyword is not a primitive type")?,
				};
				format!("ValueTypeKeyword 0 {} _\n", t)
			}
		};
		out.push_str(&line);
	}
	Ok(out)
}

pub fn tokens_for_model(tokens: &[LexedToken]) -> R<String>
{
	tokens_for_model_with(tokens, &mut Interner::new())
}

// ---------------------------------------------------------------------------
// 3. Second-generation XML dump
// ---------------------------------------------------------------------------

#[derive(Debug, Clone)]
pub struct Element
{
	pub name: String,
	pub attrs: Vec<(String, String)>,
	pub children: Vec<Node>,
	pub line: usize,
}

#[derive(Debug, Clone)]
pub enum Node
{
	Element(Element),
	/// A raw text chunk (the Debug-quoted source span of a composite string literal), unescaped.
	Text(String),
}

#[derive(Debug, Clone, Copy, Default)]
pub struct XmlOptions
{
	/// Repair the two known defects of parse_tree_xml.rs instead of reporting them:
	/// `<BitCast> .. </TypeCast>` for `x as T`, and the self-closed opening tag
	/// `<IdentifierAndExpression src=".." />` that is followed by content and a closing tag.
	pub repair_known_defects: bool,
	/// Fold `(un Negative (sint v t))` with v > 0 into `(sint -v t)`, and `(un Negative
	/// (bits 2^127 t))` into `(sint -2^127 t)`, as the first-generation parser does (the
	/// second generation leaves this to a later stage).
	pub fold_negative_literals: bool,
}

/// Unescape a Rust `{:?}` string (without the surrounding quotes).
fn unescape_debug(s: &str, line: usize) -> R<String>
{
	let mut out = String::new();
	let mut it = s.chars();
	while let Some(ch) = it.next()
	{
		if ch != '\\'
		{
			out.push(ch);
			continue;
		}
		match it.next()
		{
			Some('n') => out.push('\n'),
			Some('r') => out.push('\r'),
			Some('t') => out.push('\t'),
			Some('0') => out.push('\0'),
			Some('\\') => out.push('\\'),
			Some('"') => out.push('"'),
			Some('\'') => out.push('\''),
			Some('u') =>
			{
				if it.next() != Some('{')
				{
					return Err(format!("line {}: bad \\u escape", line));
				}
				let mut digits = String::new();
				loop
				{
					match it.next()
					{
						Some('}') => break,
						Some(d) => digits.push(d),
						None => return Err(format!("line {}: bad \\u escape", line)),
					}
				}
				let v = u32::from_str_radix(&digits, 16).map_err(|_| format!("line {}: bad \\u escape", line))?;
				out.push(char::from_u32(v).ok_or(format!("line {}: bad \\u escape", line))?);
			}
			other => return Err(format!("line {}: bad escape {:?}", line, other)),
		}
	}
	Ok(out)
}

/// Reads `"...."` starting at `s[0] == '"'`; returns the raw inside and the rest.
fn take_quoted(s: &str, line: usize) -> R<(&str, &str)>
{
	debug_assert!(s.starts_with('"'));
	let bytes = s.as_bytes();
	let mut k = 1;
	while k < bytes.len()
	{
		match bytes[k]
		{
			b'\\' => k += 2,
			b'"' => return Ok((&s[1..k], &s[k + 1..])),
			_ => k += 1,
		}
	}
	Err(format!("line {}: unterminated attribute value", line))
}

enum Event
{
	Open(Element, bool),
	Close(String, usize),
	Text(String),
}

fn parse_line(raw: &str, line: usize) -> R<Option<Event>>
{
	let s = raw.trim();
	if s.is_empty()
	{
		return Ok(None);
	}
	if s.starts_with('"')
	{
		let (inside, rest) = take_quoted(s, line)?;
		if !rest.trim().is_empty()
		{
			return Err(format!("line {}: trailing text after quoted chunk", line));
		}
		return Ok(Some(Event::Text(unescape_debug(inside, line)?)));
	}
	if let Some(rest) = s.strip_prefix("</")
	{
		let name = rest.strip_suffix('>').ok_or(format!("line {}: bad closing tag {:?}", line, s))?;
		return Ok(Some(Event::Close(name.trim().to_string(), line)));
	}
	let rest = s.strip_prefix('<').ok_or(format!("line {}: unexpected text {:?}", line, s))?;
	let name_end = rest.find(|ch: char| ch.is_whitespace() || ch == '>' || ch == '/').unwrap_or(rest.len());
	let name = rest[..name_end].to_string();
	let mut rest = &rest[name_end..];
	let mut attrs = Vec::new();
	loop
	{
		rest = rest.trim_start();
		if rest == ">"
		{
			return Ok(Some(Event::Open(
				Element {
					name,
					attrs,
					children: Vec::new(),
					line,
				},
				false,
			)));
		}
		if rest == "/>"
		{
			return Ok(Some(Event::Open(
				Element {
					name,
					attrs,
					children: Vec::new(),
					line,
				},
				true,
			)));
		}
		let eq = rest.find('=').ok_or(format!("line {}: bad attribute in {:?}", line, s))?;
		let key = rest[..eq].trim().to_string();
		let after = &rest[eq + 1..];
		if !after.starts_with('"')
		{
			return Err(format!("line {}: unquoted attribute in {:?}", line, s));
		}
		let (inside, r) = take_quoted(after, line)?;
		attrs.push((key, unescape_debug(inside, line)?));
		rest = r;
	}
}

/// Parses the dump (one chunk per line, as `ParseTree::as_xml` yields them; indentation and an
/// outer `<ParseTree filename=..>` wrapper are tolerated) into a forest, checking balance.
pub fn parse_xml_forest(xml: &str, opts: XmlOptions) -> R<Vec<Node>>
{
	let mut stack: Vec<Element> = Vec::new();
	let mut roots: Vec<Node> = Vec::new();
	let mut pending_iae: Vec<bool> = Vec::new();
	// name -> line of the most recent self-closed element of that name (for diagnostics)
	let mut self_closed: HashMap<String, usize> = HashMap::new();
	fn attach(stack: &mut Vec<Element>, roots: &mut Vec<Node>, node: Node)
	{
		match stack.last_mut()
		{
			Some(top) => top.children.push(node),
			None => roots.push(node),
		}
	}
	for (k, raw) in xml.lines().enumerate()
	{
		let line = k + 1;
		match parse_line(raw, line)?
		{
			None => (),
			Some(Event::Text(t)) => attach(&mut stack, &mut roots, Node::Text(t)),
			Some(Event::Open(e, self_closing)) =>
			{
				if e.name == "MALFORMED"
				{
					let what = e.attrs.first().map(|x| x.1.clone()).unwrap_or_default();
					return Err(format!("malformed: line {}: <MALFORMED node={:?} />", line, what));
				}
				if self_closing && e.name == "IdentifierAndExpression" && opts.repair_known_defects
				{
					stack.push(e);
					pending_iae.push(true);
				}
				else if self_closing
				{
					self_closed.insert(e.name.clone(), line);
					attach(&mut stack, &mut roots, Node::Element(e));
				}
				else
				{
					stack.push(e);
					pending_iae.push(false);
				}
			}
			Some(Event::Close(name, line)) =>
			{
				let top = match stack.pop()
				{
					Some(top) => top,
					None =>
					{
						return Err(format!(
							"unbalanced: line {}: </{}> closes nothing (its opening tag was self-closed or is missing)",
							line, name
						));
					}
				};
				pending_iae.pop();
				let repaired_cast = opts.repair_known_defects && top.name == "BitCast" && name == "TypeCast";
				if top.name != name && !repaired_cast
				{
					if let Some(at) = self_closed.get(&name)
					{
						return Err(format!(
							"unbalanced: </{}> at line {} closes nothing: its opening tag at line {} is \
							 self-closed (`<{} ... />`); the innermost open element is <{}> from line {}",
							name, line, at, name, top.name, top.line
						));
					}
					return Err(format!(
						"unbalanced: <{}> opened at line {} is closed by </{}> at line {}",
						top.name, top.line, name, line
					));
				}
				let mut top = top;
				if repaired_cast
				{
					top.name = "TypeCast".to_string();
				}
				attach(&mut stack, &mut roots, Node::Element(top));
			}
		}
	}
	if let Some(top) = stack.last()
	{
		return Err(format!("unbalanced: <{}> opened at line {} is never closed", top.name, top.line));
	}
	// Tolerate the wrapper that `penne --verbose` prints around the dump.
	if roots.len() == 1
	{
		if let Node::Element(e) = &roots[0]
		{
			if e.name == "ParseTree" || e.name == "HeaderParseTree"
			{
				return Ok(e.children.clone());
			}
		}
	}
	Ok(roots)
}

fn attr<'a>(e: &'a Element, key: &str) -> R<&'a str>
{
	e.attrs
		.iter()
		.find(|(k, _)| k == key)
		.map(|(_, v)| v.as_str())
		.ok_or(format!("line {}: <{}> lacks attribute {}", e.line, e.name, key))
}

fn elements<'a>(e: &'a Element) -> R<Vec<&'a Element>>
{
	let mut out = Vec::new();
	for c in &e.children
	{
		match c
		{
			Node::Element(x) => out.push(x),
			Node::Text(_) => return Err(format!("line {}: unexpected text inside <{}>", e.line, e.name)),
		}
	}
	Ok(out)
}

fn shape_err<T>(e: &Element, what: &str) -> R<T>
{
	Err(format!("line {}: <{}>: {}", e.line, e.name, what))
}

fn list_items<'a>(e: &'a Element, meta: &str) -> R<Vec<&'a Element>>
{
	if e.name != "List"
	{
		return shape_err(e, &format!("expected <List meta={:?}>", meta));
	}
	if attr(e, "meta")? != meta
	{
		return shape_err(e, &format!("expected meta={:?}", meta));
	}
	elements(e)
}

fn keyword_prim(s: &str) -> Option<&'static str>
{
	Some(match s
	{
		"Int8" => "i8",
		"Int16" => "i16",
		"Int32" => "i32",
		"Int64" => "i64",
		"Int128" => "i128",
		"Uint8" => "u8",
		"Uint16" => "u16",
		"Uint32" => "u32",
		"Uint64" => "u64",
		"Uint128" => "u128",
		"Usize" => "usize",
		"Char8" => "char8",
		"Bool" => "bool",
		_ => return None,
	})
}

fn is_type_element(name: &str) -> bool
{
	name == "SimpleValueType" || name == "CompositeValueType" || name.ends_with("VT")
}

fn d_ty(e: &Element) -> R<Ty>
{
	let inner = |e: &Element| -> R<Box<Ty>> {
		let cs = elements(e)?;
		if cs.len() != 1
		{
			return shape_err(e, "expected exactly one inner type");
		}
		Ok(Box::new(d_ty(cs[0])?))
	};
	Ok(match e.name.as_str()
	{
		"SimpleValueType" =>
		{
			let t = attr(e, "type")?;
			if t == "Void"
			{
				Ty::Void
			}
			else
			{
				Ty::Prim(keyword_prim(t).ok_or(format!("line {}: unknown type keyword {}", e.line, t))?)
			}
		}
		"CompositeValueType" => *inner(e)?,
		"UnresolvedStructOrWordVT" => Ty::Named(attr(e, "src")?.to_string()),
		"ArrayVT" =>
		{
			let len = attr(e, "length")?;
			let len: u128 = len.parse().map_err(|_| format!("line {}: bad length {}", e.line, len))?;
			Ty::Array(len, inner(e)?)
		}
		"ArrayWithNamedLengthVT" => Ty::ArrayNamed(attr(e, "identifier")?.to_string(), inner(e)?),
		"SliceVT" => Ty::Slice(inner(e)?),
		"EndlessArrayVT" => Ty::Endless(inner(e)?),
		"ArraylikeVT" => Ty::Arraylike(inner(e)?),
		"PointerVT" => Ty::Pointer(inner(e)?),
		"ViewVT" => Ty::View(inner(e)?),
		_ => return shape_err(e, "expected a type"),
	})
}

/// Decodes the source text of one string literal body (between the quotes) with the escape
/// rules of the first-generation lexer.
fn decode_string_body(body: &str, line: usize) -> R<Vec<u8>>
{
	let mut bytes = Vec::new();
	let mut it = body.chars().peekable();
	while let Some(ch) = it.next()
	{
		if ch != '\\'
		{
			let mut buf = [0u8; 4];
			bytes.extend_from_slice(ch.encode_utf8(&mut buf).as_bytes());
			continue;
		}
		match it.next()
		{
			Some('n') => bytes.push(b'\n'),
			Some('r') => bytes.push(b'\r'),
			Some('t') => bytes.push(b'\t'),
			Some('\\') => bytes.push(b'\\'),
			Some('\'') => bytes.push(b'\''),
			Some('"') => bytes.push(b'"'),
			Some('0') => bytes.push(0),
			Some('x') =>
			{
				let mut digits = String::new();
				while digits.len() < 2
				{
					match it.peek()
					{
						Some(d) if d.is_ascii_hexdigit() =>
						{
							digits.push(*d);
							it.next();
						}
						_ => break,
					}
				}
				if digits.len() != 2
				{
					return Err(format!("line {}: bad \\x escape in string source", line));
				}
				bytes.push(u8::from_str_radix(&digits, 16).unwrap());
			}
			Some('u') =>
			{
				if it.next() != Some('{')
				{
					return Err(format!("line {}: bad \\u escape in string source", line));
				}
				let mut digits = String::new();
				loop
				{
					match it.next()
					{
						Some('}') => break,
						Some(d) if d.is_ascii_hexdigit() => digits.push(d),
						_ => return Err(format!("line {}: bad \\u escape in string source", line)),
					}
				}
				let v = u32::from_str_radix(&digits, 16)
					.ok()
					.and_then(char::from_u32)
					.ok_or(format!("line {}: bad \\u escape in string source", line))?;
				let mut buf = [0u8; 4];
				bytes.extend_from_slice(v.encode_utf8(&mut buf).as_bytes());
			}
			other => return Err(format!("line {}: bad escape {:?} in string source", line, other)),
		}
	}
	Ok(bytes)
}

/// `<SimpleStringLiteral src=..>`: the dump strips ALL leading and trailing quotes with
/// `trim_matches('"')`, so a literal ending in `\"` loses the escaped quote; it is restored
/// when the remaining text ends with an odd number of backslashes.
fn d_simple_string(e: &Element) -> R<Vec<u8>>
{
	let mut src = attr(e, "src")?.to_string();
	let trailing = src.chars().rev().take_while(|&ch| ch == '\\').count();
	if trailing % 2 == 1
	{
		src.push('"');
	}
	decode_string_body(&src, e.line)
}

/// `<CompositeStringLiteral>`: the text is the source from the first literal to the token after
/// the last one: string literals separated by white space and comments.
fn d_composite_string(e: &Element) -> R<Vec<u8>>
{
	let text = match e.children.as_slice()
	{
		[Node::Text(t)] => t,
		_ => return shape_err(e, "expected one text chunk"),
	};
	let mut bytes = Vec::new();
	let chars: Vec<char> = text.chars().collect();
	let mut k = 0;
	let mut count = 0;
	while k < chars.len()
	{
		match chars[k]
		{
			'"' =>
			{
				let mut body = String::new();
				k += 1;
				loop
				{
					match chars.get(k)
					{
						Some('\\') =>
						{
							body.push('\\');
							if let Some(&n) = chars.get(k + 1)
							{
								body.push(n);
							}
							k += 2;
						}
						Some('"') =>
						{
							k += 1;
							break;
						}
						Some(&ch) =>
						{
							body.push(ch);
							k += 1;
						}
						None => return shape_err(e, "unterminated literal in composite string"),
					}
				}
				bytes.extend(decode_string_body(&body, e.line)?);
				count += 1;
			}
			'/' if chars.get(k + 1) == Some(&'/') =>
			{
				while k < chars.len() && chars[k] != '\n'
				{
					k += 1;
				}
			}
			ch if ch.is_whitespace() => k += 1,
			_ =>
			{
				// The span ends at the START of the token that follows the last literal only if
				// the dump is exact; anything else is reported.
				return shape_err(e, &format!("unexpected {:?} in composite string span", chars[k]));
			}
		}
	}
	if count < 2
	{
		return shape_err(e, "composite string with fewer than two literals");
	}
	Ok(bytes)
}

fn d_ref(e: &Element) -> R<Ref>
{
	if e.name != "Deref"
	{
		return shape_err(e, "expected <Deref>");
	}
	let depth = attr(e, "address_depth")?;
	let depth: u32 = depth.parse().map_err(|_| format!("line {}: bad address depth {}", e.line, depth))?;
	let cs = elements(e)?;
	if cs.len() != 1
	{
		return shape_err(e, "expected one <List meta=\"steps\">");
	}
	let mut steps = Vec::new();
	for s in list_items(cs[0], "steps")?
	{
		steps.push(match s.name.as_str()
		{
			"DerefStepMember" => Step::Member(attr(s, "identifier")?.to_string()),
			"DerefStepElement" =>
			{
				let inner = elements(s)?;
				if inner.len() != 1
				{
					return shape_err(s, "expected one index expression");
				}
				Step::Element(d_expr(inner[0])?)
			}
			_ => return shape_err(s, "expected a reference step"),
		});
	}
	Ok(Ref {
		depth,
		base: attr(e, "identifier")?.to_string(),
		steps,
	})
}

fn d_args(e: &Element, meta: &str) -> R<Vec<Expr>>
{
	let cs = elements(e)?;
	if cs.len() != 1
	{
		return shape_err(e, "expected one <List>");
	}
	list_items(cs[0], meta)?.into_iter().map(d_expr).collect()
}

fn d_bool_attr(e: &Element, key: &str) -> R<bool>
{
	match attr(e, key)?
	{
		"true" => Ok(true),
		"false" => Ok(false),
		other => Err(format!("line {}: bad boolean {:?}", e.line, other)),
	}
}

fn d_u128(e: &Element, key: &str) -> R<u128>
{
	let v = attr(e, key)?;
	v.parse().map_err(|_| format!("line {}: bad number {:?}", e.line, v))
}

fn one<'a>(e: &'a Element) -> R<&'a Element>
{
	let cs = elements(e)?;
	if cs.len() != 1
	{
		return shape_err(e, "expected exactly one child");
	}
	Ok(cs[0])
}

fn two<'a>(e: &'a Element) -> R<(&'a Element, &'a Element)>
{
	let cs = elements(e)?;
	if cs.len() != 2
	{
		return shape_err(e, "expected exactly two children");
	}
	Ok((cs[0], cs[1]))
}

fn d_expr(e: &Element) -> R<Expr>
{
	const I128_MAX: u128 = i128::MAX as u128;
	Ok(match e.name.as_str()
	{
		"Binary" =>
		{
			let (l, r) = two(e)?;
			Expr::Binary(attr(e, "op")?.to_string(), Box::new(d_expr(l)?), Box::new(d_expr(r)?))
		}
		"Unary" => Expr::Unary(attr(e, "op")?.to_string(), Box::new(d_expr(one(e)?)?)),
		"BooleanLiteral" => Expr::Bool(d_u128(e, "value")? != 0),
		"CharLiteral" => Expr::Bits(d_u128(e, "value")?, Some("char8")),
		"UntypedIntegerLiteral" =>
		{
			// NakedDecimal, BitInteger and (with a type attribute) SuffixedInteger.
			let value = d_u128(e, "value")?;
			let src = attr(e, "src")?;
			match e.attrs.iter().find(|(k, _)| k == "type")
			{
				Some((_, t)) =>
				{
					let p = keyword_prim(t).ok_or(format!("line {}: bad suffix {}", e.line, t))?;
					let signed = matches!(p, "i8" | "i16" | "i32" | "i64" | "i128");
					if signed && value <= I128_MAX
					{
						Expr::Signed(value as i128, Some(p))
					}
					else
					{
						Expr::Bits(value, Some(p))
					}
				}
				None =>
				{
					let is_bit = src.starts_with("0x") || src.starts_with("0b");
					if !is_bit && value <= I128_MAX
					{
						Expr::Signed(value as i128, None)
					}
					else
					{
						Expr::Bits(value, None)
					}
				}
			}
		}
		"SimpleStringLiteral" => Expr::Str(d_simple_string(e)?),
		"CompositeStringLiteral" => Expr::Str(d_composite_string(e)?),
		"ArrayLiteral" => Expr::Array(d_args(e, "elements")?),
		"Structural" =>
		{
			let mut ms = Vec::new();
			for m in list_items(one(e)?, "initializers")?
			{
				if m.name != "IdentifierAndExpression"
				{
					return shape_err(m, "expected <IdentifierAndExpression>");
				}
				ms.push((attr(m, "src")?.to_string(), d_expr(one(m)?)?));
			}
			Expr::Structural(attr(e, "identifier")?.to_string(), ms)
		}
		"Parenthesized" => Expr::Paren(Box::new(d_expr(one(e)?)?)),
		"Deref" => Expr::Deref(d_ref(e)?),
		"BitCast" => Expr::BitCast(Box::new(d_expr(one(e)?)?)),
		"TypeCast" =>
		{
			let (x, t) = two(e)?;
			Expr::TypeCast(Box::new(d_expr(x)?), d_ty(t)?)
		}
		"LengthOf" => Expr::Length(d_ref(one(e)?)?),
		"SizeOf" => Expr::SizeOf(d_ty(one(e)?)?),
		"FunctionCall" => Expr::Call(
			d_bool_attr(e, "is_builtin")?,
			attr(e, "identifier")?.trim_end_matches('!').to_string(),
			d_args(e, "arguments")?,
		),
		_ => return shape_err(e, "expected an expression"),
	})
}

fn d_stmt(e: &Element) -> R<Stmt>
{
	Ok(match e.name.as_str()
	{
		"VariableDeclaration" =>
		{
			let mut t = None;
			let mut v = None;
			for ch in elements(e)?
			{
				if is_type_element(&ch.name) && t.is_none() && v.is_none()
				{
					t = Some(d_ty(ch)?);
				}
				else if v.is_none()
				{
					v = Some(d_expr(ch)?);
				}
				else
				{
					return shape_err(e, "too many children");
				}
			}
			Stmt::Var(attr(e, "src")?.to_string(), t, v)
		}
		"Assignment" =>
		{
			let (r, v) = two(e)?;
			Stmt::Assign(d_ref(r)?, d_expr(v)?)
		}
		"MethodCall" => Stmt::Call(
			d_bool_attr(e, "is_builtin")?,
			attr(e, "identifier")?.trim_end_matches('!').to_string(),
			d_args(e, "arguments")?,
		),
		"Loop" => Stmt::Loop,
		"Goto" => Stmt::Goto(attr(e, "label")?.to_string()),
		"Label" => Stmt::Label(attr(e, "src")?.to_string()),
		"If" =>
		{
			let cs = elements(e)?;
			if cs.len() < 2 || cs.len() > 3 || cs[0].name != "Comparison" || cs[1].name != "Then"
			{
				return shape_err(e, "expected <Comparison> <Then> [<Else>]");
			}
			let (l, r) = two(cs[0])?;
			let th = d_stmt(one(cs[1])?)?;
			let el = match cs.get(2)
			{
				Some(x) if x.name == "Else" => Some(Box::new(d_stmt(one(x)?)?)),
				Some(x) => return shape_err(x, "expected <Else>"),
				None => None,
			};
			Stmt::If(attr(cs[0], "op")?.to_string(), d_expr(l)?, d_expr(r)?, Box::new(th), el)
		}
		"Block" => Stmt::Block(
			list_items(one(e)?, "statements")?
				.into_iter()
				.map(d_stmt)
				.collect::<R<Vec<_>>>()?,
		),
		_ => return shape_err(e, "expected a statement"),
	})
}

fn d_flags(e: &Element) -> R<(bool, bool, bool)>
{
	let mut public = false;
	let mut external = false;
	let mut opaque = false;
	for f in attr(e, "flags")?.split('|').filter(|x| !x.is_empty())
	{
		match f
		{
			"Public" => public = true,
			"External" => external = true,
			"OpaqueStruct" => opaque = true,
			other => return Err(format!("line {}: unexpected flag {}", e.line, other)),
		}
	}
	Ok((public, external, opaque))
}

fn d_typed_names(e: &Element, meta: &str) -> R<Vec<(String, Ty)>>
{
	let mut out = Vec::new();
	for m in list_items(e, meta)?
	{
		if m.name != "IdentifierAndType"
		{
			return shape_err(m, "expected <IdentifierAndType>");
		}
		out.push((attr(m, "src")?.to_string(), d_ty(one(m)?)?));
	}
	Ok(out)
}

fn d_decl(e: &Element) -> R<Decl>
{
	Ok(match e.name.as_str()
	{
		"ImportDeclaration" =>
		{
			// Flags on an import are dropped by the first generation as well.
			let s = one(e)?;
			if s.name != "SimpleStringLiteral"
			{
				return shape_err(s, "expected <SimpleStringLiteral>");
			}
			Decl::Import(d_simple_string(s)?)
		}
		"ConstantDeclaration" =>
		{
			let (public, external, _) = d_flags(e)?;
			// The dump prints the value BEFORE the type.
			let (v, t) = two(e)?;
			Decl::Const {
				public,
				external,
				name: attr(e, "identifier")?.to_string(),
				ty: d_ty(t)?,
				value: d_expr(v)?,
			}
		}
		"FunctionDeclaration" =>
		{
			let (public, external, _) = d_flags(e)?;
			let cs = elements(e)?;
			if cs.len() < 2 || cs.len() > 3
			{
				return shape_err(e, "expected parameters, return type, [body]");
			}
			let params = d_typed_names(cs[0], "parameters")?;
			let ret = d_ty(cs[1])?;
			let body = match cs.get(2)
			{
				None => None,
				Some(b) if b.name == "FunctionBody" =>
				{
					let bs = elements(b)?;
					if bs.is_empty() || bs.len() > 2
					{
						return shape_err(b, "expected statements, [return value]");
					}
					let mut ss = list_items(bs[0], "statements")?
						.into_iter()
						.map(d_stmt)
						.collect::<R<Vec<_>>>()?;
					let rv = match bs.get(1)
					{
						Some(x) =>
						{
							// The second generation has a `return` keyword and does not keep the
							// `return:` label among the statements; the first generation does.
							ss.push(Stmt::Label("return".to_string()));
							Some(d_expr(x)?)
						}
						None => None,
					};
					Some((ss, rv))
				}
				Some(b) => return shape_err(b, "expected <FunctionBody>"),
			};
			Decl::Fn {
				public,
				external,
				name: attr(e, "identifier")?.to_string(),
				params,
				ret,
				body,
			}
		}
		"StructureDeclaration" =>
		{
			let (public, external, opaque) = d_flags(e)?;
			let kind = match (attr(e, "size-in-bytes")?, opaque)
			{
				("-1", true) => "opaque",
				("-1", false) => "struct",
				("1", false) => "word8",
				("2", false) => "word16",
				("4", false) => "word32",
				("8", false) => "word64",
				("16", false) => "word128",
				(other, _) => return Err(format!("line {}: bad size-in-bytes {}", e.line, other)),
			};
			Decl::Struct {
				public,
				external,
				kind,
				name: attr(e, "identifier")?.to_string(),
				members: d_typed_names(one(e)?, "members")?,
			}
		}
		_ => return shape_err(e, "expected a declaration"),
	})
}

fn fold_negatives_expr(e: &mut Expr)
{
	match e
	{
		Expr::Unary(op, inner) =>
		{
			fold_negatives_expr(inner);
			if op == "Negative"
			{
				match **inner
				{
					Expr::Signed(v, t) if v > 0 => *e = Expr::Signed(-v, t),
					// -2^127 (first generation, commit 4639ff7)
					Expr::Bits(v, t) if v == 1u128 << 127 => *e = Expr::Signed(i128::MIN, t),
					_ => (),
				}
			}
		}
		Expr::Binary(_, l, r) =>
		{
			fold_negatives_expr(l);
			fold_negatives_expr(r);
		}
		Expr::Array(es) | Expr::Call(_, _, es) => es.iter_mut().for_each(fold_negatives_expr),
		Expr::Structural(_, ms) => ms.iter_mut().for_each(|m| fold_negatives_expr(&mut m.1)),
		Expr::Paren(x) | Expr::BitCast(x) | Expr::TypeCast(x, _) => fold_negatives_expr(x),
		Expr::Deref(r) | Expr::Length(r) => fold_negatives_ref(r),
		Expr::Bool(_) | Expr::Signed(..) | Expr::Bits(..) | Expr::Str(_) | Expr::SizeOf(_) => (),
	}
}

fn fold_negatives_ref(r: &mut Ref)
{
	for s in &mut r.steps
	{
		if let Step::Element(e) = s
		{
			fold_negatives_expr(e);
		}
	}
}

fn fold_negatives_stmt(s: &mut Stmt)
{
	match s
	{
		Stmt::Var(_, _, v) =>
		{
			if let Some(v) = v
			{
				fold_negatives_expr(v);
			}
		}
		Stmt::Assign(r, v) =>
		{
			fold_negatives_ref(r);
			fold_negatives_expr(v);
		}
		Stmt::Call(_, _, args) => args.iter_mut().for_each(fold_negatives_expr),
		Stmt::If(_, l, r, th, el) =>
		{
			fold_negatives_expr(l);
			fold_negatives_expr(r);
			fold_negatives_stmt(th);
			if let Some(el) = el
			{
				fold_negatives_stmt(el);
			}
		}
		Stmt::Block(ss) => ss.iter_mut().for_each(fold_negatives_stmt),
		Stmt::Loop | Stmt::Goto(_) | Stmt::Label(_) => (),
	}
}

/// The second-generation dump as a reference tree.
pub fn delta_tree(xml: &str, opts: XmlOptions) -> R<Vec<Decl>>
{
	let forest = parse_xml_forest(xml, opts)?;
	let mut decls = Vec::new();
	for node in &forest
	{
		match node
		{
			Node::Element(e) => decls.push(d_decl(e)?),
			Node::Text(_) => return Err("unexpected text at top level".to_string()),
		}
	}
	if opts.fold_negative_literals
	{
		for d in &mut decls
		{
			match d
			{
				Decl::Const { value, .. } => fold_negatives_expr(value),
				Decl::Fn {
					body: Some((ss, rv)), ..
				} =>
				{
					ss.iter_mut().for_each(fold_negatives_stmt);
					if let Some(rv) = rv
					{
						fold_negatives_expr(rv);
					}
				}
				_ => (),
			}
		}
	}
	Ok(decls)
}

pub fn show_delta_xml_with(xml: &str, opts: XmlOptions, i: &mut Interner) -> R<String>
{
	Ok(show_tree_with(&delta_tree(xml, opts)?, i))
}

/// Strict: any unbalanced element (including the two known defects of the dump) and any
/// MALFORMED node is an error; nothing is normalised except the representation of
/// `return: value` (see `d_decl`).
pub fn show_delta_xml(xml: &str) -> R<String>
{
	show_delta_xml_with(xml, XmlOptions::default(), &mut Interner::new())
}
