//! The `exec` stream: compile (one or more modules), run the linked IR with
//! `lli`, report exit status and stdout.  Also runs `llvm-as` on every module's
//! IR and on the linked IR (C03) when asked.
use std::io::Write;

pub fn run_lli(ir: &str, timeout_ms: u64) -> String
{
	let mut cmd = match std::process::Command::new("lli")
		.stdin(std::process::Stdio::piped())
		.stdout(std::process::Stdio::piped())
		.stderr(std::process::Stdio::piped())
		.spawn()
	{
		Ok(c) => c,
		Err(e) => return format!("lli-spawn-failed {}", e),
	};
	{
		let mut stdin = cmd.stdin.take().unwrap();
		let _ = stdin.write_all(ir.as_bytes());
	}
	let start = std::time::Instant::now();
	loop
	{
		match cmd.try_wait()
		{
			Ok(Some(_)) => break,
			Ok(None) =>
			{
				if start.elapsed().as_millis() as u64 > timeout_ms
				{
					let _ = cmd.kill();
					let _ = cmd.wait();
					return "timeout".to_string();
				}
				std::thread::sleep(std::time::Duration::from_millis(2));
			}
			Err(e) => return format!("lli-wait-failed {}", e),
		}
	}
	let output = cmd.wait_with_output().unwrap();
	let code = match output.status.code()
	{
		Some(c) => format!("{}", c),
		None => "signal".to_string(),
	};
	let err = if output.stderr.is_empty()
	{
		String::new()
	}
	else
	{
		format!(
			" stderr={}",
			crate::util::escape(
				&output.stderr[..output.stderr.len().min(200)]
			)
		)
	};
	format!(
		"exit={} out={}{}",
		code,
		crate::util::escape(&output.stdout),
		err
	)
}

pub fn tool_accepts(tool: &str, args: &[&str], ir: &str) -> Result<(), String>
{
	let mut cmd = std::process::Command::new(tool)
		.args(args)
		.stdin(std::process::Stdio::piped())
		.stdout(std::process::Stdio::null())
		.stderr(std::process::Stdio::piped())
		.spawn()
		.map_err(|e| format!("spawn {}", e))?;
	{
		let mut stdin = cmd.stdin.take().unwrap();
		let _ = stdin.write_all(ir.as_bytes());
	}
	let output = cmd.wait_with_output().map_err(|e| format!("wait {}", e))?;
	if output.status.success()
	{
		Ok(())
	}
	else
	{
		let e = String::from_utf8_lossy(&output.stderr);
		Err(e.lines().next().unwrap_or("").chars().take(160).collect())
	}
}

/// fields: verdict, run result (or "-"), tool check ("tools=ok" / "tools=<err>")
pub fn stream(casefile: &str, run: bool, tools: bool, wasm: bool)
{
	for (id, payload) in crate::util::read_cases(casefile)
	{
		let source = match String::from_utf8(payload)
		{
			Ok(s) => s,
			Err(_) =>
			{
				println!("{}\tnot-utf8\t-\t-", id);
				continue;
			}
		};
		let res = crate::util::guarded(move || {
			let c = crate::ir::compile(&crate::ir::split_modules(&source), wasm);
			let mut toolres = "-".to_string();
			if tools
			{
				toolres = "tools=ok".to_string();
				let mut all: Vec<(&str, &str)> = c
					.module_irs
					.iter()
					.map(|(n, i)| (n.as_str(), i.as_str()))
					.collect();
				if let Some(l) = &c.linked_ir
				{
					all.push(("<linked>", l.as_str()));
				}
				for (name, ir) in all
				{
					if let Err(e) =
						tool_accepts("llvm-as", &["-o", "/dev/null", "-"], ir)
					{
						toolres = format!("tools=llvm-as:{}:{}", name, e);
						break;
					}
					if let Err(e) = tool_accepts(
						"opt",
						&["-passes=verify", "-disable-output", "-"],
						ir,
					)
					{
						toolres = format!("tools=opt-verify:{}:{}", name, e);
						break;
					}
				}
			}
			let runres = match (&c.linked_ir, run)
			{
				(Some(ir), true) => run_lli(ir, 10_000),
				_ => "-".to_string(),
			};
			format!("{}\t{}\t{}", c.verdict, runres, toolres)
		});
		println!("{}\t{}", id, res);
		std::io::stdout().flush().unwrap();
	}
}
