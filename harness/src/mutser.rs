//! The `typed` stream (property C08): drive the real first-generation front end
//! up to and including the typer exactly as `Compiler::analyze_and_resolve`
//! does, serialise every typed declaration (the `common::Declaration` that is
//! handed to `Analyzer::analyze`) in the syntax of coq/theories/Model/Mutability.v,
//! run the real analyzer and resolver on it, and report the codes.
//!
//! Output: `id<TAB>verdict<TAB>sexp<TAB>aux`
//!   verdict  `ok` | `err codes=[..]` of the REAL `Compiler::analyze_and_resolve`
//!            on a second copy of the scoped declarations (or `err codes=[..]` of
//!            `check_surface_level_errors`, then sexp is `-`)
//!   sexp     `(prog decl*)`, declarations in the order in which the compiler
//!            analyses them (containers by depth, then functions)
//!   aux      `pre=[..] nonfn=[..] drive=same|DIFF:<verdict of own driving>`
//!            pre:   codes `resolver::resolve` reports on the typed declarations
//!                   BEFORE the analyzer ran (earlier stages + resolver itself);
//!                   `panic` when the resolver panics on such a tree
//!            nonfn: codes reported (after the analyzer) for declarations that are
//!                   not `Declaration::Function` (constants: constness.rs)
//!            drive: whether the codes of this file's own replica of
//!                   analyze_and_resolve (needed to get at the typed trees) equal
//!                   those of the real one
//!
//! Grammar (N = decimal resolution id; `_` poisoned name; `!` Err(..); `?` None):
//!   decl   ::= (const N oty) | (fn N (params param*) body) | (fnhead N (params param*))
//!            | (struct N (members oname*)) | (other)
//!   param  ::= (param oname oty)            oname ::= N | _        oty ::= ty | !
//!   body   ::= (body (stmts stmt*) oret) | (nobody)      oret ::= (ret expr) | (noret)
//!   stmt   ::= (var N ovalue pty) | (assign ref expr) | (mcall N B (argtys argty*) expr*)
//!            | (if expr expr stmt) | (if expr expr stmt stmt) | (block stmt*) | (other)
//!   ovalue ::= expr | (novalue)             pty ::= ty | ! | ?
//!   B      ::= - | abort | format | print | eprint | file | line | dbg | panic | include_bytes
//!   argty  ::= (D pty)      D = 1 iff the argument is an Expression::Deref;
//!                            pty = its Typed::value_type() before the analyzer
//!   ty     ::= (prim K) | (arr ty LEN) | (arrn ty N) | (slice ty) | (sliceptr ty)
//!            | (endless ty) | (arraylike ty) | (struct N) | (word N) | (unresolved)
//!            | (ptr ty) | (view ty)       K = index of the variant in ValueType
//!   expr   ::= (leaf) | (bin expr expr) | (un expr) | (arrlit expr*) | (structural expr*)
//!            | (paren expr) | (coerce expr) | (cast expr) | (deref ref pty) | (lenof ref)
//!            | (call N B (argtys argty*) expr*) | (poison)
//!   ref    ::= (ref oname AD step*)
//!   step   ::= (elem expr) | (mem N) | (autoderef) | (autoview)
//!            | (deslice-view) | (deslice-ptr) | (deslice-len)
use penne::alpha::common::*;
use penne::alpha::typer::Typed;
use penne::alpha::{
	analyzer, expander, generator, resolved, resolver, scoper, typer, value_type,
	Compiler, Errors,
};
use std::fmt::Write;

fn ty(t: &ValueType, o: &mut String)
{
	let prim = |k: u32, o: &mut String| write!(o, "(prim {})", k).unwrap();
	let un = |tag: &str, e: &ValueType, o: &mut String| {
		write!(o, "({} ", tag).unwrap();
		ty(e, o);
		o.push(')');
	};
	match t
	{
		ValueType::Void => prim(0, o),
		ValueType::Int8 => prim(1, o),
		ValueType::Int16 => prim(2, o),
		ValueType::Int32 => prim(3, o),
		ValueType::Int64 => prim(4, o),
		ValueType::Int128 => prim(5, o),
		ValueType::Uint8 => prim(6, o),
		ValueType::Uint16 => prim(7, o),
		ValueType::Uint32 => prim(8, o),
		ValueType::Uint64 => prim(9, o),
		ValueType::Uint128 => prim(10, o),
		ValueType::Usize => prim(11, o),
		ValueType::Char8 => prim(12, o),
		ValueType::Bool => prim(13, o),
		ValueType::Array {
			element_type,
			length,
		} =>
		{
			o.push_str("(arr ");
			ty(element_type, o);
			write!(o, " {})", length).unwrap();
		}
		ValueType::ArrayWithNamedLength {
			element_type,
			named_length,
		} =>
		{
			o.push_str("(arrn ");
			ty(element_type, o);
			write!(o, " {})", named_length.resolution_id).unwrap();
		}
		ValueType::Slice { element_type } => un("slice", element_type, o),
		ValueType::SlicePointer { element_type } => un("sliceptr", element_type, o),
		ValueType::EndlessArray { element_type } => un("endless", element_type, o),
		ValueType::Arraylike { element_type } => un("arraylike", element_type, o),
		ValueType::Struct { identifier } =>
		{
			write!(o, "(struct {})", identifier.resolution_id).unwrap()
		}
		ValueType::Word { identifier, .. } =>
		{
			write!(o, "(word {})", identifier.resolution_id).unwrap()
		}
		ValueType::UnresolvedStructOrWord { .. } => o.push_str("(unresolved)"),
		ValueType::Pointer { deref_type } => un("ptr", deref_type, o),
		ValueType::View { deref_type } => un("view", deref_type, o),
	}
}

/// Poisonable<ValueType> as `ty | !`.
fn oty(t: &Poisonable<ValueType>, o: &mut String)
{
	match t
	{
		Ok(t) => ty(t, o),
		Err(_) => o.push('!'),
	}
}

/// Option<Poisonable<ValueType>> as `ty | ! | ?`.
fn pty(t: &Option<Poisonable<ValueType>>, o: &mut String)
{
	match t
	{
		Some(t) => oty(t, o),
		None => o.push('?'),
	}
}

fn oname(n: &Poisonable<Identifier>, o: &mut String)
{
	match n
	{
		Ok(n) => write!(o, "{}", n.resolution_id).unwrap(),
		Err(_) => o.push('_'),
	}
}

fn builtin(b: &Option<Builtin>) -> &'static str
{
	match b
	{
		None => "-",
		Some(Builtin::Abort) => "abort",
		Some(Builtin::Format) => "format",
		Some(Builtin::Print) => "print",
		Some(Builtin::Eprint) => "eprint",
		Some(Builtin::File) => "file",
		Some(Builtin::Line) => "line",
		Some(Builtin::Dbg) => "dbg",
		Some(Builtin::Panic) => "panic",
		Some(Builtin::IncludeBytes) => "include_bytes",
	}
}

fn call(
	tag: &str,
	name: &Identifier,
	b: &Option<Builtin>,
	arguments: &[Expression],
	o: &mut String,
)
{
	write!(o, "({} {} {} (argtys", tag, name.resolution_id, builtin(b)).unwrap();
	for a in arguments
	{
		let d = matches!(a, Expression::Deref { .. });
		write!(o, " ({} ", if d { 1 } else { 0 }).unwrap();
		pty(&a.value_type(), o);
		o.push(')');
	}
	o.push(')');
	for a in arguments
	{
		o.push(' ');
		expr(a, o);
	}
	o.push(')');
}

fn reference(r: &Reference, o: &mut String)
{
	o.push_str("(ref ");
	oname(&r.base, o);
	write!(o, " {}", r.address_depth).unwrap();
	for s in &r.steps
	{
		o.push(' ');
		match s
		{
			ReferenceStep::Element { argument, .. } =>
			{
				o.push_str("(elem ");
				expr(argument, o);
				o.push(')');
			}
			ReferenceStep::Member { member, .. } =>
			{
				write!(o, "(mem {})", member.resolution_id).unwrap()
			}
			ReferenceStep::Autodeslice { offset } => o.push_str(match offset
			{
				DesliceOffset::ArrayByView => "(deslice-view)",
				DesliceOffset::ArrayByPointer => "(deslice-ptr)",
				DesliceOffset::Length => "(deslice-len)",
			}),
			ReferenceStep::Autoderef => o.push_str("(autoderef)"),
			ReferenceStep::Autoview => o.push_str("(autoview)"),
		}
	}
	o.push(')');
}

fn exprs<'a>(
	tag: &str,
	es: impl Iterator<Item = &'a Expression>,
	o: &mut String,
)
{
	write!(o, "({}", tag).unwrap();
	for e in es
	{
		o.push(' ');
		expr(e, o);
	}
	o.push(')');
}

fn expr(e: &Expression, o: &mut String)
{
	match e
	{
		Expression::Binary { left, right, .. } =>
		{
			exprs("bin", [left.as_ref(), right.as_ref()].into_iter(), o)
		}
		Expression::Unary { expression, .. } =>
		{
			exprs("un", std::iter::once(expression.as_ref()), o)
		}
		Expression::BooleanLiteral { .. }
		| Expression::SignedIntegerLiteral { .. }
		| Expression::BitIntegerLiteral { .. }
		| Expression::StringLiteral { .. }
		| Expression::SizeOf { .. } => o.push_str("(leaf)"),
		Expression::ArrayLiteral { array, .. } =>
		{
			exprs("arrlit", array.elements.iter(), o)
		}
		Expression::Structural { members, .. } =>
		{
			exprs("structural", members.iter().map(|m| &m.expression), o)
		}
		Expression::Parenthesized { inner, .. } =>
		{
			exprs("paren", std::iter::once(inner.as_ref()), o)
		}
		Expression::Autocoerce { expression, .. } =>
		{
			exprs("coerce", std::iter::once(expression.as_ref()), o)
		}
		Expression::BitCast { expression, .. }
		| Expression::TypeCast { expression, .. } =>
		{
			exprs("cast", std::iter::once(expression.as_ref()), o)
		}
		Expression::Deref {
			reference: r,
			deref_type,
		} =>
		{
			o.push_str("(deref ");
			reference(r, o);
			o.push(' ');
			pty(deref_type, o);
			o.push(')');
		}
		Expression::LengthOfArray { reference: r, .. } =>
		{
			o.push_str("(lenof ");
			reference(r, o);
			o.push(')');
		}
		Expression::FunctionCall {
			name,
			builtin,
			arguments,
			..
		} => call("call", name, builtin, arguments, o),
		Expression::Poison(_) => o.push_str("(poison)"),
	}
}

fn stmt(s: &Statement, o: &mut String)
{
	match s
	{
		Statement::Declaration {
			name,
			value,
			value_type,
			..
		} =>
		{
			write!(o, "(var {} ", name.resolution_id).unwrap();
			match value
			{
				Some(v) => expr(v, o),
				None => o.push_str("(novalue)"),
			}
			o.push(' ');
			pty(value_type, o);
			o.push(')');
		}
		Statement::Assignment {
			reference: r,
			value,
			..
		} =>
		{
			o.push_str("(assign ");
			reference(r, o);
			o.push(' ');
			expr(value, o);
			o.push(')');
		}
		Statement::MethodCall {
			name,
			builtin,
			arguments,
		} => call("mcall", name, builtin, arguments, o),
		Statement::If {
			condition,
			then_branch,
			else_branch,
			..
		} =>
		{
			o.push_str("(if ");
			expr(&condition.left, o);
			o.push(' ');
			expr(&condition.right, o);
			o.push(' ');
			stmt(then_branch, o);
			if let Some(e) = else_branch
			{
				o.push(' ');
				stmt(&e.branch, o);
			}
			o.push(')');
		}
		Statement::Block(block) =>
		{
			o.push_str("(block");
			for s in &block.statements
			{
				o.push(' ');
				stmt(s, o);
			}
			o.push(')');
		}
		Statement::Loop { .. }
		| Statement::Goto { .. }
		| Statement::Label { .. }
		| Statement::Poison(_) => o.push_str("(other)"),
	}
}

fn params(ps: &[Parameter], o: &mut String)
{
	o.push_str("(params");
	for p in ps
	{
		o.push_str(" (param ");
		oname(&p.name, o);
		o.push(' ');
		oty(&p.value_type, o);
		o.push(')');
	}
	o.push(')');
}

pub fn decl(d: &Declaration, o: &mut String)
{
	match d
	{
		Declaration::Constant {
			name, value_type, ..
		} =>
		{
			write!(o, "(const {} ", name.resolution_id).unwrap();
			oty(value_type, o);
			o.push(')');
		}
		Declaration::Function {
			name,
			parameters,
			body,
			..
		} =>
		{
			write!(o, "(fn {} ", name.resolution_id).unwrap();
			params(parameters, o);
			o.push(' ');
			match body
			{
				Ok(body) =>
				{
					o.push_str("(body (stmts");
					for s in &body.statements
					{
						o.push(' ');
						stmt(s, o);
					}
					o.push_str(") ");
					match &body.return_value
					{
						Some(v) =>
						{
							o.push_str("(ret ");
							expr(v, o);
							o.push(')');
						}
						None => o.push_str("(noret)"),
					}
					o.push(')');
				}
				Err(_) => o.push_str("(nobody)"),
			}
			o.push(')');
		}
		Declaration::FunctionHead {
			name, parameters, ..
		} =>
		{
			write!(o, "(fnhead {} ", name.resolution_id).unwrap();
			params(parameters, o);
			o.push(')');
		}
		Declaration::Structure { name, members, .. } =>
		{
			write!(o, "(struct {} (members", name.resolution_id).unwrap();
			for m in members
			{
				o.push(' ');
				oname(&m.name, o);
			}
			o.push_str("))");
		}
		Declaration::Import { .. } | Declaration::Poison(_) => o.push_str("(other)"),
	}
}

/// What this file's replica of `Compiler::analyze_and_resolve` collects.
struct Driven
{
	sexp: String,
	pre: Vec<u16>,
	pre_panicked: bool,
	nonfn: Vec<u16>,
	/// the declarations as handed to the linter (lintser.rs) and the module's one linter
	lint_sexp: String,
	linter: penne::alpha::linter::Linter,
}

type Resolved = Result<Vec<resolved::Declaration>, Errors>;

fn codes_of<T>(r: &Result<T, Errors>) -> Vec<u16>
{
	match r
	{
		Ok(_) => Vec::new(),
		Err(errors) => errors.codes(),
	}
}

/// `Compiler::analyze_and_resolve_sorted`, with the typer, analyzer and generator
/// driven by hand (the linter has no influence on errors and is left out).
fn sorted(
	declarations: Vec<Declaration>,
	are_all_containers: bool,
	typer: &mut typer::Typer,
	analyzer: &mut analyzer::Analyzer,
	generator: &mut generator::Generator,
	out: &mut Driven,
) -> Result<Resolved, String>
{
	for declaration in &declarations
	{
		typer.forward_declare_structure(declaration);
	}
	for name in declarations.iter().filter_map(scoper::get_structure_name)
	{
		generator.forward_declare_structure(name).map_err(|e| e.to_string())?;
	}
	let declarations: Vec<Declaration> = if are_all_containers
	{
		declarations
	}
	else
	{
		let declarations: Vec<Declaration> =
			declarations.into_iter().map(|x| typer.declare(x)).collect();
		for declaration in &declarations
		{
			analyzer.declare(declaration);
		}
		declarations
	};
	let mut acc: Resolved = Ok(Vec::new());
	for declaration in declarations
	{
		let declaration = if are_all_containers
		{
			typer.declare(declaration)
		}
		else
		{
			declaration
		};
		let declaration = typer.analyze(declaration);
		// The value handed to the analyzer.
		out.sexp.push(' ');
		decl(&declaration, &mut out.sexp);
		let is_function = matches!(declaration, Declaration::Function { .. });
		let copy = declaration.clone();
		match std::panic::catch_unwind(std::panic::AssertUnwindSafe(move || {
			codes_of(&resolver::resolve(copy))
		}))
		{
			Ok(mut codes) => out.pre.append(&mut codes),
			Err(_) => out.pre_panicked = true,
		}
		let declaration = analyzer.analyze(declaration);
		// What `Compiler::analyze_and_resolve_sorted` hands to the linter.
		out.lint_sexp.push(' ');
		crate::lintser::decl(&declaration, &mut out.lint_sexp);
		out.linter.lint(&declaration);
		let resolved = resolver::resolve(declaration);
		if !is_function
		{
			out.nonfn.append(&mut codes_of(&resolved));
		}
		if let Ok(declaration) = &resolved
		{
			match generator.declare(declaration)
			{
				Ok(()) => match declaration
				{
					resolved::Declaration::Constant {
						name,
						value_type: value_type::ValueType::Usize,
						..
					} =>
					{
						if let Some(value) = generator.get_named_length(name)
						{
							typer.resolve_named_length(name.resolution_id, value);
						}
					}
					_ => (),
				},
				Err(_) if acc.is_err() => (),
				Err(error) => return Err(error.to_string()),
			}
		}
		acc = resolver::accumulate(acc, resolved);
	}
	Ok(acc)
}

fn drive(
	mut declarations: Vec<Declaration>,
	filename: &str,
	out: &mut Driven,
) -> Result<Resolved, String>
{
	let mut typer = typer::Typer::default();
	let mut analyzer = analyzer::Analyzer::default();
	let mut generator = generator::Generator::default();
	generator.add_module(filename).map_err(|e| e.to_string())?;
	declarations.sort_by_key(|x| scoper::get_container_depth(x, u32::MAX));
	let offset = declarations.partition_point(|x| scoper::is_container(x));
	let functions = declarations.split_off(offset);
	let containers = declarations;
	let (t, a, g) = (&mut typer, &mut analyzer, &mut generator);
	let containers = sorted(containers, true, t, a, g, out)?;
	let functions = sorted(functions, false, t, a, g, out)?;
	Ok(resolver::combine(containers, functions))
}

fn verdict(r: &Resolved) -> String
{
	match r
	{
		Ok(_) => "ok".to_string(),
		Err(errors) =>
		{
			format!("err codes={}", crate::util::codes_to_string(&errors.codes()))
		}
	}
}

pub fn stream(casefile: &str)
{
	for (id, payload) in crate::util::read_cases(casefile)
	{
		let source = match String::from_utf8(payload)
		{
			Ok(s) => s,
			Err(_) =>
			{
				println!("{}\tnot-utf8\t-\t-", id);
				continue;
			}
		};
		let res = crate::util::guarded(move || {
			let filename = "case.pn";
			let declarations = crate::front::parse(&source, filename);
			let declarations = expander::expand_one(filename, declarations);
			if let Err(errors) = resolver::check_surface_level_errors(&declarations)
			{
				let codes = crate::util::codes_to_string(&errors.codes());
				return format!("err codes={}\t-\tsurface", codes);
			}
			let declarations = scoper::analyze(declarations);
			// The real pipeline, on a copy.
			let mut compiler = Compiler::default();
			compiler.add_module(filename).unwrap();
			let real = compiler.analyze_and_resolve(declarations.clone()).unwrap();
			let real = verdict(&real);
			// The same pipeline driven by hand, to get at the typed trees.
			let mut out = Driven {
				sexp: "(prog".to_string(),
				pre: Vec::new(),
				pre_panicked: false,
				nonfn: Vec::new(),
				lint_sexp: "(mod".to_string(),
				linter: Default::default(),
			};
			let mine = match drive(declarations, filename, &mut out)
			{
				Ok(r) => verdict(&r),
				Err(e) => format!("bail {}", e.replace(['\n', '\t'], " ")),
			};
			out.sexp.push(')');
			out.pre.sort();
			out.nonfn.sort();
			let pre = if out.pre_panicked
			{
				"panic".to_string()
			}
			else
			{
				crate::util::codes_to_string(&out.pre)
			};
			let drive = if mine == real
			{
				"same".to_string()
			}
			else
			{
				format!("DIFF:{}", mine)
			};
			format!(
				"{}\t{}\tpre={} nonfn={} drive={}",
				real,
				out.sexp,
				pre,
				crate::util::codes_to_string(&out.nonfn),
				drive
			)
		});
		println!("{}\t{}", id, res);
	}
}


/// The `lintwalk` stream: see lintser.rs.
pub fn lint_stream(casefile: &str)
{
	for (id, payload) in crate::util::read_cases(casefile)
	{
		let source = match String::from_utf8(payload)
		{
			Ok(s) => s,
			Err(_) =>
			{
				println!("{}\tnot-utf8\t-\t-", id);
				continue;
			}
		};
		let res = crate::util::guarded(move || {
			let filename = "case.pn";
			let declarations = crate::front::parse(&source, filename);
			let declarations = expander::expand_one(filename, declarations);
			if let Err(errors) = resolver::check_surface_level_errors(&declarations)
			{
				let codes = crate::util::codes_to_string(&errors.codes());
				return format!("err codes={}\t-\t-", codes);
			}
			let declarations = scoper::analyze(declarations);
			// The real pipeline, on a copy: its lints are the reference.
			let mut compiler = Compiler::default();
			compiler.add_module(filename).unwrap();
			let real = compiler.analyze_and_resolve(declarations.clone()).unwrap();
			let real_lints = compiler.take_lints();
			let mut out = Driven {
				sexp: String::new(),
				pre: Vec::new(),
				pre_panicked: false,
				nonfn: Vec::new(),
				lint_sexp: "(mod".to_string(),
				linter: Default::default(),
			};
			if let Err(e) = drive(declarations, filename, &mut out)
			{
				return format!("bail {}\t-\t-", e.replace(['\n', '\t'], " "));
			}
			out.lint_sexp.push(')');
			let show = |lints: &Vec<penne::alpha::linter::Lint>| {
				let mut s = String::new();
				for l in lints
				{
					write!(s, "({} {})", l.code(), l.verif_primary_location().span.start).unwrap();
				}
				s
			};
			let mine: Vec<penne::alpha::linter::Lint> = out.linter.into();
			let (a, b) = (show(&real_lints), show(&mine));
			// the hand-driven replica must see what the real pipeline sees
			let lints = if a == b { a } else { format!("DIFF real={} replica={}", a, b) };
			format!("{}\t{}\t{}", verdict(&real), out.lint_sexp, lints)
		});
		println!("{}\t{}", id, res);
	}
}
