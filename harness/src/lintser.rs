//! The `lintwalk` stream (property C09): the declarations the real pipeline hands
//! to `Linter::lint` (typed and analysed, in the order of `analyze_and_resolve`),
//! serialised in the syntax of coq/theories/Model/LintWalk.v, and the lints the
//! real linter - ONE linter shared by the whole module, as in alpha.rs - produces.
//!
//! Output: `id<TAB>verdict<TAB>sexp<TAB>lints`
//!   sexp   `(mod decl*)`
//!   lints  `(CODE POS)*`  POS = span.start of the lint's primary location
//!
//! Grammar (P = span.start of the literal; T = `-` (no type / poisoned type) or
//! `(K MIN MAX)` with K the primitive's keyword or `other`, MIN/MAX what
//! value_type.rs's min_i128()/max_u128() say):
//!   decl ::= (const expr) | (fn body) | (fnpoison) | (head) | (struct) | (import) | (poison)
//!   body ::= (body (stmts stmt*) oexpr)          oexpr ::= expr | (none)
//!   stmt ::= (var oexpr) | (assign (steps step*) expr) | (mcall expr*) | (loop P) | (goto)
//!          | (label) | (if expr expr P stmt) | (if expr expr P stmt (else stmt P))
//!          | (block P stmt*) | (poison)
//!   expr ::= (bin expr expr) | (neg expr) | (un expr) | (bool) | (sint V T P) | (bits V T P) | (str)
//!          | (arr expr*) | (structural expr*) | (paren expr) | (deref step*) | (coerce expr)
//!          | (bitcast expr) | (cast expr) | (lenof step*) | (sizeof) | (call expr*) | (poison)
//!          (neg e) is Unary with UnaryOp::Negative, (un e) Unary with any other operator
//!   step ::= (elem expr) | (mem) | (deslice) | (autoderef) | (autoview)
use penne::alpha::common::*;
use std::fmt::Write;

fn tytag(t: &Option<Poisonable<ValueType>>, o: &mut String)
{
	match t
	{
		Some(Ok(vt)) =>
		{
			let k = match vt
			{
				ValueType::Int8 => "i8",
				ValueType::Int16 => "i16",
				ValueType::Int32 => "i32",
				ValueType::Int64 => "i64",
				ValueType::Int128 => "i128",
				ValueType::Uint8 => "u8",
				ValueType::Uint16 => "u16",
				ValueType::Uint32 => "u32",
				ValueType::Uint64 => "u64",
				ValueType::Uint128 => "u128",
				ValueType::Usize => "usize",
				ValueType::Char8 => "char8",
				ValueType::Bool => "bool",
				_ => "other",
			};
			write!(o, "({} {} {})", k, vt.min_i128(), vt.max_u128()).unwrap();
		}
		_ => o.push('-'),
	}
}

fn exprs<'a>(
	tag: &str,
	es: impl Iterator<Item = &'a Expression>,
	o: &mut String,
)
{
	o.push('(');
	o.push_str(tag);
	for e in es
	{
		o.push(' ');
		expr(e, o);
	}
	o.push(')');
}

fn steps(tag: &str, r: &Reference, o: &mut String)
{
	o.push('(');
	o.push_str(tag);
	for s in &r.steps
	{
		o.push(' ');
		match s
		{
			ReferenceStep::Element { argument, .. } =>
			{
				exprs("elem", std::iter::once(argument.as_ref()), o)
			}
			ReferenceStep::Member { .. } => o.push_str("(mem)"),
			ReferenceStep::Autodeslice { .. } => o.push_str("(deslice)"),
			ReferenceStep::Autoderef => o.push_str("(autoderef)"),
			ReferenceStep::Autoview => o.push_str("(autoview)"),
		}
	}
	o.push(')');
}

fn expr(e: &Expression, o: &mut String)
{
	match e
	{
		Expression::Binary { left, right, .. } =>
		{
			exprs("bin", [left.as_ref(), right.as_ref()].into_iter(), o)
		}
		Expression::Unary { op, expression, .. } =>
		{
			let tag = match op
			{
				UnaryOp::Negative => "neg",
				UnaryOp::BitwiseComplement => "un",
			};
			exprs(tag, std::iter::once(expression.as_ref()), o)
		}
		Expression::BooleanLiteral { .. } => o.push_str("(bool)"),
		Expression::SignedIntegerLiteral {
			value,
			value_type,
			location,
		} =>
		{
			write!(o, "(sint {} ", value).unwrap();
			tytag(value_type, o);
			write!(o, " {})", location.span.start).unwrap();
		}
		Expression::BitIntegerLiteral {
			value,
			value_type,
			location,
		} =>
		{
			write!(o, "(bits {} ", value).unwrap();
			tytag(value_type, o);
			write!(o, " {})", location.span.start).unwrap();
		}
		Expression::StringLiteral { .. } => o.push_str("(str)"),
		Expression::ArrayLiteral { array, .. } =>
		{
			exprs("arr", array.elements.iter(), o)
		}
		Expression::Structural { members, .. } =>
		{
			exprs("structural", members.iter().map(|m| &m.expression), o)
		}
		Expression::Parenthesized { inner, .. } =>
		{
			exprs("paren", std::iter::once(inner.as_ref()), o)
		}
		Expression::Deref { reference, .. } => steps("deref", reference, o),
		Expression::Autocoerce { expression, .. } =>
		{
			exprs("coerce", std::iter::once(expression.as_ref()), o)
		}
		Expression::BitCast { expression, .. } =>
		{
			exprs("bitcast", std::iter::once(expression.as_ref()), o)
		}
		Expression::TypeCast { expression, .. } =>
		{
			exprs("cast", std::iter::once(expression.as_ref()), o)
		}
		Expression::LengthOfArray { reference, .. } =>
		{
			steps("lenof", reference, o)
		}
		Expression::SizeOf { .. } => o.push_str("(sizeof)"),
		Expression::FunctionCall { arguments, .. } =>
		{
			exprs("call", arguments.iter(), o)
		}
		Expression::Poison(_) => o.push_str("(poison)"),
	}
}

fn oexpr(e: &Option<Expression>, o: &mut String)
{
	match e
	{
		Some(e) => expr(e, o),
		None => o.push_str("(none)"),
	}
}

fn stmt(s: &Statement, o: &mut String)
{
	match s
	{
		Statement::Declaration { value, .. } =>
		{
			o.push_str("(var ");
			oexpr(value, o);
			o.push(')');
		}
		Statement::Assignment {
			reference, value, ..
		} =>
		{
			o.push_str("(assign ");
			steps("steps", reference, o);
			o.push(' ');
			expr(value, o);
			o.push(')');
		}
		Statement::MethodCall { arguments, .. } =>
		{
			exprs("mcall", arguments.iter(), o)
		}
		Statement::Loop { location } =>
		{
			write!(o, "(loop {})", location.span.start).unwrap()
		}
		Statement::Goto { .. } => o.push_str("(goto)"),
		Statement::Label { .. } => o.push_str("(label)"),
		Statement::If {
			condition,
			then_branch,
			else_branch,
			..
		} =>
		{
			o.push_str("(if ");
			expr(&condition.left, o);
			o.push(' ');
			expr(&condition.right, o);
			write!(o, " {} ", condition.location.span.start).unwrap();
			stmt(then_branch, o);
			if let Some(els) = else_branch
			{
				o.push_str(" (else ");
				stmt(&els.branch, o);
				write!(o, " {})", els.location_of_else.span.start).unwrap();
			}
			o.push(')');
		}
		Statement::Block(block) =>
		{
			write!(o, "(block {}", block.location.span.start).unwrap();
			for s in &block.statements
			{
				o.push(' ');
				stmt(s, o);
			}
			o.push(')');
		}
		Statement::Poison(_) => o.push_str("(poison)"),
	}
}

/// One declaration as the linter receives it.
pub fn decl(d: &Declaration, o: &mut String)
{
	match d
	{
		Declaration::Constant { value, .. } =>
		{
			o.push_str("(const ");
			expr(value, o);
			o.push(')');
		}
		Declaration::Function { body: Ok(body), .. } =>
		{
			o.push_str("(fn (body (stmts");
			for s in &body.statements
			{
				o.push(' ');
				stmt(s, o);
			}
			o.push_str(") ");
			oexpr(&body.return_value, o);
			o.push_str("))");
		}
		Declaration::Function { body: Err(_), .. } => o.push_str("(fnpoison)"),
		Declaration::FunctionHead { .. } => o.push_str("(head)"),
		Declaration::Structure { .. } => o.push_str("(struct)"),
		Declaration::Import { .. } => o.push_str("(import)"),
		Declaration::Poison(_) => o.push_str("(poison)"),
	}
}
