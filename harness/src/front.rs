//! The `front` stream: run the real first-generation front end on a source
//! text and report verdict, codes and lints, plus the parsed program shape.
use penne::alpha::*;

pub enum Outcome
{
	Ok { lints: Vec<u16>, resolved: Vec<resolved::Declaration> },
	Errors(Vec<u16>),
}

pub fn parse(source: &str, filename: &str) -> Vec<common::Declaration>
{
	let tokens = lexer::lex(source, filename);
	parser::parse(tokens)
}

/// Everything up to and including resolution, as `compile_source` does.
pub fn run(
	declarations: Vec<common::Declaration>,
	filename: &str,
	compiler: &mut Compiler,
) -> Outcome
{
	let declarations = expander::expand_one(filename, declarations);
	if let Err(errors) = resolver::check_surface_level_errors(&declarations)
	{
		return Outcome::Errors(errors.codes());
	}
	let declarations = scoper::analyze(declarations);
	compiler.add_module(filename).unwrap();
	match compiler.analyze_and_resolve(declarations).unwrap()
	{
		Ok(resolved) =>
		{
			let lints = compiler.take_lints().iter().map(|l| l.code()).collect();
			Outcome::Ok { lints, resolved }
		}
		Err(errors) => Outcome::Errors(errors.codes()),
	}
}

pub fn describe(o: &Outcome) -> String
{
	match o
	{
		Outcome::Ok { lints, .. } =>
		{
			format!("ok lints={}", crate::util::codes_to_string(lints))
		}
		Outcome::Errors(codes) =>
		{
			format!("err codes={}", crate::util::codes_to_string(codes))
		}
	}
}

pub fn stream(casefile: &str)
{
	for (id, payload) in crate::util::read_cases(casefile)
	{
		let source = match String::from_utf8(payload)
		{
			Ok(s) => s,
			Err(_) =>
			{
				println!("{}\tnot-utf8\t-", id);
				continue;
			}
		};
		let res = crate::util::guarded(move || {
			let filename = "case.pn";
			let decls = parse(&source, filename);
			let shape = crate::shape::program(&decls);
			let pre = expander::expand_one(filename, decls.clone());
			let mut depths = "-".to_string();
			let vshape = if resolver::check_surface_level_errors(&pre).is_ok()
			{
				let post = scoper::analyze(pre.clone());
				depths = crate::shape::depths(&pre, &post);
				crate::shape::vprogram(&pre, &post)
			}
			else
			{
				"-".to_string()
			};
			let mut compiler = Compiler::default();
			let outcome = run(decls, filename, &mut compiler);
			format!("{}\t{}\t{}\t{}", describe(&outcome), shape, vshape, depths)
		});
		println!("{}\t{}", id, res);
	}
}
