//! Serialise what the real parser produced as the s-expression "program shape"
//! the Coq models consume (labels, gotos, blocks, ifs, declarations, uses).
use penne::alpha::common::*;

pub fn program(decls: &[Declaration]) -> String
{
	let mut consts = Vec::new();
	let mut fns = Vec::new();
	for d in decls
	{
		match d
		{
			Declaration::Constant { name, .. } => consts.push(atom(&name.name)),
			Declaration::Function { parameters, body, .. } =>
			{
				let params: Vec<String> = parameters
					.iter()
					.map(|p| match &p.name
					{
						Ok(n) => atom(&n.name),
						Err(_) => "?".to_string(),
					})
					.collect();
				let b = match body
				{
					Ok(body) =>
					{
						let mut v: Vec<String> =
							body.statements.iter().map(stmt).collect();
						if let Some(rv) = &body.return_value
						{
							let mut u = Vec::new();
							expr_uses(rv, &mut u);
							v.push(format!("(R ({}))", u.join(" ")));
						}
						v.join(" ")
					}
					Err(_) => "(P)".to_string(),
				};
				fns.push(format!("(F ({}) {})", params.join(" "), b));
			}
			// a signature without body: its parameters are declared in a scope of their own
			Declaration::FunctionHead { parameters, .. } =>
			{
				let params: Vec<String> = parameters
					.iter()
					.map(|p| match &p.name
					{
						Ok(n) => atom(&n.name),
						Err(_) => "?".to_string(),
					})
					.collect();
				fns.push(format!("(F ({}))", params.join(" ")));
			}
			_ => (),
		}
	}
	format!("((C {}) {})", consts.join(" "), fns.join(" "))
}

fn atom(s: &str) -> String
{
	// identifiers are [A-Za-z0-9_]+, safe as atoms
	s.to_string()
}

pub fn stmt(s: &Statement) -> String
{
	match s
	{
		Statement::Declaration { name, value, .. } =>
		{
			let mut u = Vec::new();
			if let Some(v) = value
			{
				expr_uses(v, &mut u);
			}
			format!("(D {} ({}))", atom(&name.name), u.join(" "))
		}
		Statement::Assignment { reference, value, .. } =>
		{
			let mut u = Vec::new();
			expr_uses(value, &mut u);
			ref_uses(reference, &mut u);
			format!("(A ({}))", u.join(" "))
		}
		Statement::MethodCall { arguments, .. } =>
		{
			let mut u = Vec::new();
			for a in arguments
			{
				expr_uses(a, &mut u);
			}
			format!("(A ({}))", u.join(" "))
		}
		Statement::Loop { .. } => "(X)".to_string(),
		Statement::Goto { label, .. } => format!("(G {})", atom(&label.name)),
		Statement::Label { label, .. } => format!("(L {})", atom(&label.name)),
		Statement::If { condition, then_branch, else_branch, .. } =>
		{
			let mut u = Vec::new();
			expr_uses(&condition.left, &mut u);
			expr_uses(&condition.right, &mut u);
			match else_branch
			{
				Some(e) => format!(
					"(I ({}) {} {})",
					u.join(" "),
					stmt(then_branch),
					stmt(&e.branch)
				),
				None => format!("(I ({}) {})", u.join(" "), stmt(then_branch)),
			}
		}
		Statement::Block(b) =>
		{
			let v: Vec<String> = b.statements.iter().map(stmt).collect();
			format!("(B {})", v.join(" "))
		}
		Statement::Poison(_) => "(P)".to_string(),
	}
}

fn ref_uses(r: &Reference, u: &mut Vec<String>)
{
	if let Ok(b) = &r.base
	{
		u.push(atom(&b.name));
	}
	for s in &r.steps
	{
		if let ReferenceStep::Element { argument, .. } = s
		{
			expr_uses(argument, u);
		}
	}
}

/// Variable uses in the order the variable scoper visits them.
pub fn expr_uses(e: &Expression, u: &mut Vec<String>)
{
	match e
	{
		Expression::Binary { left, right, .. } =>
		{
			expr_uses(left, u);
			expr_uses(right, u);
		}
		Expression::Unary { expression, .. } => expr_uses(expression, u),
		Expression::ArrayLiteral { array, .. } =>
		{
			for x in &array.elements
			{
				expr_uses(x, u);
			}
		}
		Expression::Structural { members, .. } =>
		{
			for m in members
			{
				expr_uses(&m.expression, u);
			}
		}
		Expression::Parenthesized { inner, .. } => expr_uses(inner, u),
		Expression::Deref { reference, .. } => ref_uses(reference, u),
		Expression::BitCast { expression, .. } => expr_uses(expression, u),
		Expression::TypeCast { expression, .. } => expr_uses(expression, u),
		Expression::LengthOfArray { reference, .. } => ref_uses(reference, u),
		Expression::FunctionCall { arguments, .. } =>
		{
			for a in arguments
			{
				expr_uses(a, u);
			}
		}
		_ => (),
	}
}

/// Program shape for the variable scoper model: like `program`, but every
/// goto/label carries the resolution id the real label scoper assigned
/// (taken from the tree after `scoper::analyze`), or is (P) when poisoned.
pub fn vprogram(pre: &[Declaration], post: &[Declaration]) -> String
{
	let mut consts = Vec::new();
	let mut fns = Vec::new();
	for (d, q) in pre.iter().zip(post.iter())
	{
		match (d, q)
		{
			(Declaration::Constant { name, .. }, _) =>
			{
				consts.push(name.name.clone())
			}
			(
				Declaration::Function { parameters, body: Ok(body), .. },
				Declaration::Function { body: Ok(qbody), .. },
			) =>
			{
				let params: Vec<String> = parameters
					.iter()
					.map(|p| match &p.name
					{
						Ok(n) => n.name.clone(),
						Err(_) => "?".to_string(),
					})
					.collect();
				let mut v: Vec<String> = body
					.statements
					.iter()
					.zip(qbody.statements.iter())
					.map(|(a, b)| vstmt(a, b))
					.collect();
				let mut u = Vec::new();
				if let Some(rv) = &body.return_value
				{
					expr_uses(rv, &mut u);
				}
				v.push(format!("(R ({}))", u.join(" ")));
				fns.push(format!("(F ({}) {})", params.join(" "), v.join(" ")));
			}
			// a signature without body: its parameters are declared in a scope of their own
			(Declaration::FunctionHead { parameters, .. }, _) =>
			{
				let params: Vec<String> = parameters
					.iter()
					.map(|p| match &p.name
					{
						Ok(n) => atom(&n.name),
						Err(_) => "?".to_string(),
					})
					.collect();
				fns.push(format!("(F ({}))", params.join(" ")));
			}
			_ => (),
		}
	}
	format!("((C {}) {})", consts.join(" "), fns.join(" "))
}

fn vstmt(s: &Statement, q: &Statement) -> String
{
	match (s, q)
	{
		(Statement::Goto { .. }, Statement::Goto { label, .. }) =>
		{
			format!("(G {})", label.resolution_id)
		}
		(Statement::Label { .. }, Statement::Label { label, .. }) =>
		{
			format!("(L {})", label.resolution_id)
		}
		(Statement::Goto { .. }, _) | (Statement::Label { .. }, _) =>
		{
			"(P)".to_string()
		}
		(
			Statement::If { condition, then_branch, else_branch, .. },
			Statement::If { then_branch: qt, else_branch: qe, .. },
		) =>
		{
			let mut u = Vec::new();
			expr_uses(&condition.left, &mut u);
			expr_uses(&condition.right, &mut u);
			match (else_branch, qe)
			{
				(Some(e), Some(qe)) => format!(
					"(I ({}) {} {})",
					u.join(" "),
					vstmt(then_branch, qt),
					vstmt(&e.branch, &qe.branch)
				),
				_ => format!("(I ({}) {})", u.join(" "), vstmt(then_branch, qt)),
			}
		}
		(Statement::Block(b), Statement::Block(qb)) =>
		{
			let v: Vec<String> = b
				.statements
				.iter()
				.zip(qb.statements.iter())
				.map(|(a, b)| vstmt(a, b))
				.collect();
			format!("(B {})", v.join(" "))
		}
		_ => stmt(s),
	}
}

/// Container depths assigned by the scoper (C11): "name=depth" / "name=poison".
pub fn depths(pre: &[Declaration], post: &[Declaration]) -> String
{
	let mut out = Vec::new();
	for (d, q) in pre.iter().zip(post.iter())
	{
		let name = match d
		{
			Declaration::Constant { name, .. } => &name.name,
			Declaration::Structure { name, .. } => &name.name,
			_ => continue,
		};
		let depth = match q
		{
			Declaration::Constant { depth, .. } => depth.clone(),
			Declaration::Structure { depth, .. } => depth.clone(),
			_ => None,
		};
		out.push(match depth
		{
			Some(Ok(n)) => format!("{}={}", name, n),
			Some(Err(_)) => format!("{}=poison", name),
			None => format!("{}=none", name),
		});
	}
	out.join(",")
}
