//! The `diag` stream (C13): compile, and for every diagnostic report its code,
//! its primary location and whether it renders in every colour/charset
//! configuration.  Lints of accepted programs are reported the same way.
use penne::alpha::*;

fn render(
	e: &error::Error,
	sources: &[(String, String)],
	color: bool,
	ascii: bool,
) -> Result<Vec<u8>, String>
{
	let cfg = ariadne::Config::default()
		.with_index_type(ariadne::IndexType::Char)
		.with_color(color)
		.with_char_set(if ascii
		{
			ariadne::CharSet::Ascii
		}
		else
		{
			ariadne::CharSet::Unicode
		});
	let config = error::Config::from(cfg).with_color(color);
	let cache = ariadne::sources(sources.to_vec());
	let res = std::panic::catch_unwind(std::panic::AssertUnwindSafe(|| {
		let report = e.build_report(config);
		let mut buf: Vec<u8> = Vec::new();
		report.write(cache, &mut buf).map(|_| buf)
	}));
	match res
	{
		Ok(Ok(buf)) => Ok(buf),
		Ok(Err(e)) => Err(format!("io:{}", e)),
		Err(_) => Err("panic".to_string()),
	}
}

fn describe(e: &error::Error, sources: &[(String, String)]) -> String
{
	let loc = e.verif_primary_location();
	let mut status = Vec::new();
	let all_ascii = sources.iter().all(|(_, s)| s.is_ascii());
	let mut digest: u64 = 0xcbf29ce484222325;
	// the source lines the plain rendering shows excerpts of (primary and secondary labels)
	let mut shown: std::collections::BTreeSet<usize> = std::collections::BTreeSet::new();
	for (color, ascii) in [(false, false), (false, true), (true, false), (true, true)]
	{
		match render(e, sources, color, ascii)
		{
			Ok(buf) =>
			{
				if !color && ascii
				{
					// FNV-1a of the rendered text: the determinism check compares it across processes
					for b in &buf
					{
						digest ^= *b as u64;
						digest = digest.wrapping_mul(0x100000001b3);
					}
				}
				let code_tag = format!("{}", e.code());
				let text = String::from_utf8_lossy(&buf);
				if !color && ascii
				{
					for l in text.lines()
					{
						let t = l.trim_start();
						let digits: String = t.chars().take_while(|c| c.is_ascii_digit()).collect();
						if !digits.is_empty() && t[digits.len()..].starts_with(" |")
						{
							if let Ok(n) = digits.parse::<usize>()
							{
								shown.insert(n);
							}
						}
					}
				}
				if !color && ascii
				{
					// the line the rendered header shows (`-[ file:LINE:COL ]`) must be the reported one
					if let Some(i) = text.find("-[ ")
					{
						let head: &str = text[i + 3..].split(" ]").next().unwrap_or("");
						let mut parts = head.rsplitn(3, ':');
						let _col = parts.next();
						if let Some(Ok(l)) = parts.next().map(|x| x.parse::<usize>())
						{
							if l != loc.line_number
							{
								status.push(format!("hdrline{}", l));
							}
						}
					}
				}
				if !text.contains(&code_tag)
				{
					status.push(format!("nocode{}{}", color as u8, ascii as u8));
				}
				if !color
				{
					// the published tag of the code (docs/errors.md: `E<code>` for errors, `L<code>` for
					// lints) and its kind head the report: `[L1800] Warning:`
					let code = e.code();
					let want = if code < 1000
					{
						format!("[E{}] Error:", code)
					}
					else if code < 2000
					{
						format!("[L{}] Warning:", code)
					}
					else
					{
						format!("[L{}] Advice:", code)
					};
					let first = text.lines().find(|l| !l.trim().is_empty()).unwrap_or("");
					if !first.starts_with(&want)
					{
						let shown: String = first.chars().take(24).filter(|c| !c.is_whitespace()).collect();
						status.push(format!("tag{}", shown));
					}
				}
				if !color && buf.contains(&0x1b)
				{
					status.push(format!("esc{}{}", color as u8, ascii as u8));
				}
				if ascii && !color && all_ascii && !buf.is_ascii()
				{
					status.push(format!("nonascii{}{}", color as u8, ascii as u8));
				}
			}
			Err(x) => status.push(format!("{}{}{}", x, color as u8, ascii as u8)),
		}
	}
	format!(
		"{}@{}:{}-{}:{}:{}:{}#{:016x}%{}",
		e.code(),
		loc.source_filename,
		loc.span.start,
		loc.span.end,
		loc.line_number,
		loc.line_offset,
		if status.is_empty() { "ok".to_string() } else { status.join(",") },
		digest,
		shown.iter().map(|n| n.to_string()).collect::<Vec<_>>().join(",")
	)
}

pub fn stream(casefile: &str)
{
	for (id, payload) in crate::util::read_cases(casefile)
	{
		let source = match String::from_utf8(payload)
		{
			Ok(s) => s,
			Err(_) =>
			{
				println!("{}\tnot-utf8", id);
				continue;
			}
		};
		let res = crate::util::guarded(move || {
			let sources = crate::ir::split_modules(&source);
			let mut modules = Vec::new();
			for (filename, source) in &sources
			{
				let tokens = lexer::lex(source, filename);
				let declarations = parser::parse(tokens);
				let filepath: std::path::PathBuf = filename.parse().unwrap();
				modules.push((filepath, declarations));
			}
			expander::expand(&mut modules);
			let mut errors: Vec<error::Error> = Vec::new();
			for (_p, declarations) in &modules
			{
				if let Err(e) = resolver::check_surface_level_errors(declarations)
				{
					errors.extend(e.errors);
				}
			}
			let mut lints: Vec<error::Error> = Vec::new();
			let mut failed_empty = false;
			if errors.is_empty()
			{
				let mut compiler = Compiler::default();
				for (filepath, declarations) in modules
				{
					let filename = filepath.to_str().unwrap().to_string();
					compiler.add_module(&filename).unwrap();
					let declarations = scoper::analyze(declarations);
					match compiler.analyze_and_resolve(declarations).unwrap()
					{
						Ok(_) => lints.extend(compiler.take_lints()),
						Err(e) =>
						{
							if e.errors.is_empty()
							{
								failed_empty = true;
							}
							errors.extend(e.errors);
						}
					}
				}
			}
			let verdict = if failed_empty && errors.is_empty()
			{
				"err-empty"
			}
			else if errors.is_empty()
			{
				"ok"
			}
			else
			{
				"err"
			};
			let d: Vec<String> =
				errors.iter().chain(lints.iter()).map(|e| describe(e, &sources)).collect();
			format!("{}\t{}", verdict, d.join(" "))
		});
		println!("{}\t{}", id, res);
	}
}
