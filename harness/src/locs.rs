//! The `loc` stream (property C13): the real `Location::combined_with` and
//! `Location::comparison_key` on given numbers.
//! Payload: eight decimal numbers `s e line offset s e line offset` (locations a, b);
//! output: `a.combined_with(&b)` as `s e line offset`, then `b.combined_with(&a)`, then
//! the ordering of the comparison keys (`lt` | `eq` | `gt`).
use penne::alpha::lexer::Location;

fn show(l: &Location) -> String
{
	format!("{} {} {} {}", l.span.start, l.span.end, l.line_number, l.line_offset)
}

pub fn stream(casefile: &str)
{
	for (id, payload) in crate::util::read_cases(casefile)
	{
		let text = String::from_utf8_lossy(&payload).to_string();
		let v: Vec<usize> =
			text.split_whitespace().filter_map(|x| x.parse().ok()).collect();
		if v.len() != 8
		{
			println!("{}\tbad-input", id);
			continue;
		}
		let mk = |k: usize| Location {
			source_filename: "case.pn".to_string(),
			span: v[k]..v[k + 1],
			line_number: v[k + 2],
			line_offset: v[k + 3],
		};
		let (a, b) = (mk(0), mk(4));
		let ab = a.clone().combined_with(&b);
		let ba = b.clone().combined_with(&a);
		let ord = match a.comparison_key().cmp(&b.comparison_key())
		{
			std::cmp::Ordering::Less => "lt",
			std::cmp::Ordering::Equal => "eq",
			std::cmp::Ordering::Greater => "gt",
		};
		println!("{}\t{}\t{}\t{}", id, show(&ab), show(&ba), ord);
	}
}
