//! The `vtpred` stream (properties C07 / C01): the real public predicates of
//! `src/alpha/value_type.rs` on a pair of types.
//! Payload: two types in the syntax of the `typed` stream, one after the other
//!   ty ::= (prim K) | (arr ty LEN) | (arrn ty N) | (slice ty) | (sliceptr ty) | (endless ty)
//!        | (arraylike ty) | (struct N) | (word N SIZE) | (unresolved) | (unresolved N)
//!        | (ptr ty) | (view ty)
//! Output: `a.can_be_declared_as(b) a.can_be_concretization_of(b) a.can_coerce_into(b)
//!          a.can_coerce_address_into(b) a.can_autoderef_into(b) a.is_wellformed() b.is_wellformed()
//!          a.pointer_depth() a.is_slice_pointer()` as 0/1 and a number.
use penne::alpha::common::{Identifier, ValueType};
use penne::alpha::lexer::Location;

#[derive(Debug)]
enum Sx
{
	A(String),
	L(Vec<Sx>),
}

fn parse(tokens: &mut std::iter::Peekable<std::vec::IntoIter<String>>) -> Option<Sx>
{
	let t = tokens.next()?;
	if t == "("
	{
		let mut items = Vec::new();
		loop
		{
			match tokens.peek()
			{
				None => return None,
				Some(x) if x == ")" =>
				{
					tokens.next();
					return Some(Sx::L(items));
				}
				Some(_) => items.push(parse(tokens)?),
			}
		}
	}
	else if t == ")"
	{
		None
	}
	else
	{
		Some(Sx::A(t))
	}
}

fn tokenize(text: &str) -> Vec<String>
{
	text.replace('(', " ( ")
		.replace(')', " ) ")
		.split_whitespace()
		.map(|x| x.to_string())
		.collect()
}

fn ident(id: u32) -> Identifier
{
	Identifier {
		name: format!("S{}", id),
		location: Location {
			source_filename: "case.pn".to_string(),
			span: 0..1,
			line_number: 1,
			line_offset: 1,
		},
		resolution_id: id,
		is_authoritative: true,
	}
}

fn num(x: &Sx) -> Option<u64>
{
	match x
	{
		Sx::A(s) => s.parse().ok(),
		_ => None,
	}
}

fn vt(x: &Sx) -> Option<ValueType>
{
	let items = match x
	{
		Sx::L(items) => items,
		_ => return None,
	};
	let head = match items.first()?
	{
		Sx::A(s) => s.as_str(),
		_ => return None,
	};
	let inner = |k: usize| -> Option<Box<ValueType>> { Some(Box::new(vt(items.get(k)?)?)) };
	Some(match head
	{
		"prim" => match num(items.get(1)?)?
		{
			0 => ValueType::Void,
			1 => ValueType::Int8,
			2 => ValueType::Int16,
			3 => ValueType::Int32,
			4 => ValueType::Int64,
			5 => ValueType::Int128,
			6 => ValueType::Uint8,
			7 => ValueType::Uint16,
			8 => ValueType::Uint32,
			9 => ValueType::Uint64,
			10 => ValueType::Uint128,
			11 => ValueType::Usize,
			12 => ValueType::Char8,
			13 => ValueType::Bool,
			_ => return None,
		},
		"arr" => ValueType::Array {
			element_type: inner(1)?,
			length: num(items.get(2)?)? as usize,
		},
		"arrn" => ValueType::ArrayWithNamedLength {
			element_type: inner(1)?,
			named_length: ident(num(items.get(2)?)? as u32),
		},
		"slice" => ValueType::Slice { element_type: inner(1)? },
		"sliceptr" => ValueType::SlicePointer { element_type: inner(1)? },
		"endless" => ValueType::EndlessArray { element_type: inner(1)? },
		"arraylike" => ValueType::Arraylike { element_type: inner(1)? },
		"struct" => ValueType::Struct {
			identifier: ident(num(items.get(1)?)? as u32),
		},
		"word" => ValueType::Word {
			identifier: ident(num(items.get(1)?)? as u32),
			size_in_bytes: num(items.get(2)?)? as usize,
		},
		"unresolved" => ValueType::UnresolvedStructOrWord {
			identifier: match items.get(1)
			{
				Some(x) => Some(ident(num(x)? as u32)),
				None => None,
			},
		},
		"ptr" => ValueType::Pointer { deref_type: inner(1)? },
		"view" => ValueType::View { deref_type: inner(1)? },
		_ => return None,
	})
}

pub fn stream(casefile: &str)
{
	for (id, payload) in crate::util::read_cases(casefile)
	{
		let text = String::from_utf8_lossy(&payload).to_string();
		let mut tokens = tokenize(&text).into_iter().peekable();
		let a = parse(&mut tokens).and_then(|x| vt(&x));
		let b = parse(&mut tokens).and_then(|x| vt(&x));
		let (a, b) = match (a, b)
		{
			(Some(a), Some(b)) => (a, b),
			_ =>
			{
				println!("{}\tbad-input", id);
				continue;
			}
		};
		let line = crate::util::guarded(move || {
			let f = |x: bool| if x { 1 } else { 0 };
			format!(
				"{} {} {} {} {} {} {} {} {}",
				f(a.can_be_declared_as(&b)),
				f(a.can_be_concretization_of(&b)),
				f(a.can_coerce_into(&b)),
				f(a.can_coerce_address_into(&b)),
				f(a.can_autoderef_into(&b)),
				f(a.is_wellformed()),
				f(b.is_wellformed()),
				a.pointer_depth(),
				f(a.is_slice_pointer()),
			)
		});
		println!("{}\t{}", id, line);
	}
}
