//! The `syntax-tree` stream (C16, C20): for a source text print
//!  1. the real first-generation lexer's tokens in the text format of the
//!     reference parser (Model/RefParser.v),
//!  2. the first-generation AST in the canonical `show` text,
//!  3. the second-generation tree decoded from its XML dump (strict), and the
//!     same with the known dump defects repaired / negative literals folded,
//!  4. the rebuilt source, its re-parsed `show` text and the second rebuild (C20).
use crate::showser as S;
use penne::alpha::*;

fn enc(s: &str) -> String
{
	crate::util::escape(s.as_bytes())
}

pub fn stream(casefile: &str)
{
	for (id, payload) in crate::util::read_cases(casefile)
	{
		let source = match String::from_utf8(payload)
		{
			Ok(s) => s,
			Err(_) =>
			{
				println!("{}\tnot-utf8", id);
				continue;
			}
		};
		let src2 = source.clone();
		let alpha = crate::util::guarded(move || {
			let tokens = lexer::lex(&src2, "case.pn");
			let mut interner = S::Interner::new();
			let toks = match S::tokens_for_model_with(&tokens, &mut interner)
			{
				Ok(t) => t,
				Err(e) => return format!("lexerr {}\t-\t-", enc(&e)),
			};
			let decls = parser::parse(tokens);
			let shown = match S::show_alpha_with(&decls, &mut interner.clone())
			{
				Ok(s) => format!("ok {}", enc(&s)),
				Err(e) => format!("err {}", enc(&e)),
			};
			// C20: rebuild, re-parse, rebuild again
			let indentation = rebuilder::Indentation { value: "\t", amount: 0 };
			let rebuilt = match rebuilder::rebuild(&decls, &indentation)
			{
				Ok(code) =>
				{
					let tokens2 = lexer::lex(&code, "case.pn");
					let decls2 = parser::parse(tokens2);
					let shown2 = match S::show_alpha(&decls2)
					{
						Ok(s) => format!("ok {}", enc(&s)),
						Err(e) => format!("err {}", enc(&e)),
					};
					let again = match rebuilder::rebuild(&decls2, &indentation)
					{
						Ok(code2) => (code2 == code).to_string(),
						Err(_) => "rebuild2-failed".to_string(),
					};
					format!("ok {}\t{}\t{}", enc(&code), shown2, again)
				}
				Err(e) => format!("err {}\t-\t-", enc(&e.to_string())),
			};
			format!("{}\t{}\t{}", enc(&toks), shown, rebuilt)
		});
		let src3 = source.clone();
		let delta = crate::util::guarded(move || {
			use penne::delta;
			let tokens = delta::lexer::lex(src3.as_bytes(), "case.pn");
			if let Some(errors) = tokens.errors()
			{
				return format!("lexerr {:?}\t-\t-", errors.codes());
			}
			let tree = delta::parser::parse(&tokens);
			if let Some(errors) = tree.errors(&tokens)
			{
				return format!("parseerr {:?}\t-\t-", errors.codes());
			}
			let xml: Vec<String> = tree.as_xml(&tokens, &src3).collect();
			let xml = xml.join("\n");
			let strict = match S::show_delta_xml(&xml)
			{
				Ok(s) => format!("ok {}", enc(&s)),
				Err(e) => format!("err {}", enc(&e)),
			};
			let mut i1 = S::Interner::new();
			let repaired = match S::show_delta_xml_with(
				&xml,
				S::XmlOptions { repair_known_defects: true, fold_negative_literals: false },
				&mut i1,
			)
			{
				Ok(s) => format!("ok {}", enc(&s)),
				Err(e) => format!("err {}", enc(&e)),
			};
			let mut i2 = S::Interner::new();
			let folded = match S::show_delta_xml_with(
				&xml,
				S::XmlOptions { repair_known_defects: true, fold_negative_literals: true },
				&mut i2,
			)
			{
				Ok(s) => format!("ok {}", enc(&s)),
				Err(e) => format!("err {}", enc(&e)),
			};
			format!("{}\t{}\t{}", strict, repaired, folded)
		});
		println!("{}\t{}\t{}", id, alpha, delta);
	}
}
