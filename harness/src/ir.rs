//! The `ir` stream: full first-generation pipeline on one or more modules,
//! printing the textual IR (escaped) or the diagnostics.
//! Payload: a single source, or several modules separated by lines
//! "//// module <path>".
use penne::alpha::*;

pub struct Compiled
{
	pub verdict: String,
	pub module_irs: Vec<(String, String)>,
	pub linked_ir: Option<String>,
}

pub fn split_modules(payload: &str) -> Vec<(String, String)>
{
	if !payload.starts_with("//// module ")
	{
		return vec![("case.pn".to_string(), payload.to_string())];
	}
	let mut modules: Vec<(String, String)> = Vec::new();
	for line in payload.split_inclusive('\n')
	{
		if let Some(rest) = line.strip_prefix("//// module ")
		{
			modules.push((rest.trim().to_string(), String::new()));
		}
		else if let Some(m) = modules.last_mut()
		{
			m.1.push_str(line);
		}
	}
	modules
}

/// The compiler gave up with an error that is not a diagnostic (main.rs prints
/// "Error: <message>" and exits with status 1, without any error code).
fn internal_error(e: anyhow::Error) -> Compiled
{
	let msg: String = format!("{}", e).chars().take(60).collect();
	Compiled {
		verdict: format!("internal-error:{}", msg.replace(' ', "_")),
		module_irs: vec![],
		linked_ir: None,
	}
}

pub fn compile(sources: &[(String, String)], wasm: bool) -> Compiled
{
	let mut modules = Vec::new();
	for (filename, source) in sources
	{
		let tokens = lexer::lex(source, filename);
		let declarations = parser::parse(tokens);
		let filepath: std::path::PathBuf = filename.parse().unwrap();
		modules.push((filepath, declarations));
	}
	expander::expand(&mut modules);
	let mut all_codes: Vec<u16> = Vec::new();
	let mut failed = false;
	for (_filepath, declarations) in &modules
	{
		if let Err(errors) = resolver::check_surface_level_errors(declarations)
		{
			failed = true;
			all_codes.extend(errors.codes());
		}
	}
	if failed
	{
		return Compiled {
			verdict: format!(
				"err codes={}",
				crate::util::codes_to_string(&all_codes)
			),
			module_irs: vec![],
			linked_ir: None,
		};
	}
	let mut compiler = Compiler::default();
	if wasm
	{
		compiler.for_wasm().unwrap();
	}
	let mut module_irs = Vec::new();
	let mut all_lints: Vec<u16> = Vec::new();
	let mut silent_failure = false;
	for (filepath, declarations) in modules
	{
		let filename = filepath.to_str().unwrap().to_string();
		compiler.add_module(&filename).unwrap();
		let declarations = scoper::analyze(declarations);
		let analyzed = match compiler.analyze_and_resolve(declarations)
		{
			Ok(x) => x,
			Err(e) => return internal_error(e),
		};
		match analyzed
		{
			Ok(resolved) =>
			{
				all_lints
					.extend(compiler.take_lints().iter().map(|l| l.code()));
				if !failed
				{
					if let Err(e) = compiler.compile(&resolved)
					{
						return internal_error(e);
					}
					let ir = match compiler.generate_ir()
					{
						Ok(ir) => ir,
						Err(e) => return internal_error(e),
					};
					module_irs.push((filename, ir));
				}
			}
			Err(errors) =>
			{
				failed = true;
				if errors.errors.is_empty()
				{
					silent_failure = true;
				}
				all_codes.extend(errors.codes());
			}
		}
	}
	if failed
	{
		let verdict = if silent_failure && all_codes.is_empty()
		{
			"err codes=[]".to_string()
		}
		else
		{
			format!("err codes={}", crate::util::codes_to_string(&all_codes))
		};
		return Compiled {
			verdict,
			module_irs: vec![],
			linked_ir: None,
		};
	}
	let linked_ir = if module_irs.len() > 1
	{
		compiler.link_modules().unwrap();
		Some(compiler.generate_ir().unwrap())
	}
	else
	{
		module_irs.first().map(|x| x.1.clone())
	};
	Compiled {
		verdict: format!(
			"ok lints={}",
			crate::util::codes_to_string(&all_lints)
		),
		module_irs,
		linked_ir,
	}
}

pub fn stream(casefile: &str, wasm: bool)
{
	for (id, payload) in crate::util::read_cases(casefile)
	{
		let source = match String::from_utf8(payload)
		{
			Ok(s) => s,
			Err(_) =>
			{
				println!("{}\tnot-utf8\t-", id);
				continue;
			}
		};
		let res = crate::util::guarded(move || {
			let c = compile(&split_modules(&source), wasm);
			let mut out = c.verdict.clone();
			out.push('\t');
			out.push_str(&crate::util::escape(
				c.linked_ir.unwrap_or_default().as_bytes(),
			));
			for (name, ir) in &c.module_irs
			{
				out.push('\t');
				out.push_str(name);
				out.push('\t');
				out.push_str(&crate::util::escape(ir.as_bytes()));
			}
			out
		});
		println!("{}\t{}", id, res);
		use std::io::Write;
		std::io::stdout().flush().unwrap();
	}
}
