//! Case files: one case per line, "id<TAB>payload", payload escaped with
//! \n \t \r \\ and \xHH for other non-printable bytes.
use std::io::BufRead;

pub fn unescape(s: &str) -> Vec<u8>
{
	let b = s.as_bytes();
	let mut out = Vec::with_capacity(b.len());
	let mut i = 0;
	while i < b.len()
	{
		if b[i] == b'\\' && i + 1 < b.len()
		{
			match b[i + 1]
			{
				b'n' => { out.push(b'\n'); i += 2; }
				b't' => { out.push(b'\t'); i += 2; }
				b'r' => { out.push(b'\r'); i += 2; }
				b'\\' => { out.push(b'\\'); i += 2; }
				b'x' if i + 3 < b.len() =>
				{
					let h = std::str::from_utf8(&b[i + 2..i + 4]).unwrap();
					out.push(u8::from_str_radix(h, 16).unwrap());
					i += 4;
				}
				_ => { out.push(b[i]); i += 1; }
			}
		}
		else
		{
			out.push(b[i]);
			i += 1;
		}
	}
	out
}

pub fn escape(bytes: &[u8]) -> String
{
	let mut s = String::with_capacity(bytes.len() + 8);
	for &c in bytes
	{
		match c
		{
			b'\n' => s.push_str("\\n"),
			b'\t' => s.push_str("\\t"),
			b'\r' => s.push_str("\\r"),
			b'\\' => s.push_str("\\\\"),
			0x20..=0x7e => s.push(c as char),
			_ => s.push_str(&format!("\\x{:02x}", c)),
		}
	}
	s
}

fn read_cases_vec(path: &str) -> Vec<(String, Vec<u8>)>
{
	let f = std::fs::File::open(path).expect("case file");
	let mut cases = Vec::new();
	for line in std::io::BufReader::new(f).lines()
	{
		let line = line.unwrap();
		if line.is_empty()
		{
			continue;
		}
		let (id, payload) = match line.split_once('\t')
		{
			Some(x) => x,
			None => (line.as_str(), ""),
		};
		cases.push((id.to_string(), unescape(payload)));
	}
	cases
}

/// The cases of a case file; every step of the iteration tells the watchdog
/// which case is running and since when.
pub struct Cases
{
	inner: std::vec::IntoIter<(String, Vec<u8>)>,
}

impl Iterator for Cases
{
	type Item = (String, Vec<u8>);

	fn next(&mut self) -> Option<Self::Item>
	{
		let item = self.inner.next();
		let mut cur = CURRENT_CASE.lock().unwrap();
		*cur = item.as_ref().map(|(id, _)| (id.clone(), std::time::Instant::now()));
		item
	}
}

static CURRENT_CASE: std::sync::Mutex<Option<(String, std::time::Instant)>> =
	std::sync::Mutex::new(None);

pub fn read_cases(path: &str) -> Cases
{
	Cases {
		inner: read_cases_vec(path).into_iter(),
	}
}

/// A case that runs longer than PVH_CASE_TIMEOUT seconds (default 30) ends the
/// process: its line says `timeout`, the caller re-runs the remaining cases.
pub fn start_watchdog()
{
	let limit: u64 = std::env::var("PVH_CASE_TIMEOUT")
		.ok()
		.and_then(|x| x.parse().ok())
		.unwrap_or(30);
	std::thread::spawn(move || loop
	{
		std::thread::sleep(std::time::Duration::from_millis(500));
		let cur = CURRENT_CASE.lock().unwrap().clone();
		if let Some((id, since)) = cur
		{
			if since.elapsed().as_secs() >= limit
			{
				println!("{}\ttimeout", id);
				use std::io::Write;
				let _ = std::io::stdout().flush();
				std::process::exit(7);
			}
		}
	});
}

/// Run a closure, turning a panic into "panic@file:line message".
pub fn guarded<F: FnOnce() -> String + std::panic::UnwindSafe>(f: F) -> String
{
	match std::panic::catch_unwind(f)
	{
		Ok(s) => s,
		Err(e) =>
		{
			let msg = if let Some(s) = e.downcast_ref::<&str>()
			{
				s.to_string()
			}
			else if let Some(s) = e.downcast_ref::<String>()
			{
				s.clone()
			}
			else
			{
				"?".to_string()
			};
			let site = LAST_PANIC_SITE.with(|c| c.borrow().clone());
			let msg: String = msg.chars().take(80).collect();
			format!("panic@{} {}", site, msg.replace(['\n', '\t'], " "))
		}
	}
}

thread_local! {
	pub static LAST_PANIC_SITE: std::cell::RefCell<String> = std::cell::RefCell::new(String::new());
}

pub fn install_panic_hook()
{
	std::panic::set_hook(Box::new(|info| {
		let site = match info.location()
		{
			Some(l) =>
			{
				let f = l.file();
				let f = f.rsplit("/src/").next().unwrap_or(f);
				format!("{}:{}", f, l.line())
			}
			None => "?".to_string(),
		};
		LAST_PANIC_SITE.with(|c| *c.borrow_mut() = site);
	}));
}

pub fn codes_to_string(codes: &[u16]) -> String
{
	let v: Vec<String> = codes.iter().map(|c| c.to_string()).collect();
	format!("[{}]", v.join(","))
}
