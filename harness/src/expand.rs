//! The `expand` stream: real lexer + parser + `expander::expand` on a set of
//! modules; prints every module's declarations before and after expansion in
//! the shape the Coq model (Model/Expand.v) consumes.
use penne::alpha::common::*;
use penne::alpha::*;

fn flags(f: &enumset::EnumSet<DeclarationFlag>) -> String
{
	format!(
		"{}{}{}{}{}",
		if f.contains(DeclarationFlag::Public) { "p" } else { "-" },
		if f.contains(DeclarationFlag::External) { "e" } else { "-" },
		if f.contains(DeclarationFlag::Main) { "m" } else { "-" },
		if f.contains(DeclarationFlag::Forward) { "f" } else { "-" },
		if f.contains(DeclarationFlag::OpaqueStruct) { "o" } else { "-" },
	)
}

fn decl(d: &Declaration) -> String
{
	match d
	{
		Declaration::Constant { name, flags: f, .. } =>
		{
			format!("(const {} {} n)", name.name, flags(f))
		}
		Declaration::Function { name, flags: f, .. } =>
		{
			format!("(fn {} {} b)", name.name, flags(f))
		}
		Declaration::FunctionHead { name, flags: f, .. } =>
		{
			format!("(fnhead {} {} n)", name.name, flags(f))
		}
		Declaration::Structure { name, flags: f, .. } =>
		{
			format!("(struct {} {} n)", name.name, flags(f))
		}
		Declaration::Import { filename, .. } =>
		{
			format!("(import {})", filename.replace(' ', "_"))
		}
		Declaration::Poison(error::Poison::Error(e)) =>
		{
			format!("(poison {})", e.code())
		}
		Declaration::Poison(error::Poison::Poisoned) => "(poison 0)".to_string(),
	}
}

fn show(modules: &[(std::path::PathBuf, Vec<Declaration>)]) -> String
{
	let v: Vec<String> = modules
		.iter()
		.map(|(p, ds)| {
			let d: Vec<String> = ds.iter().map(decl).collect();
			format!("(M {} {})", p.to_string_lossy(), d.join(" "))
		})
		.collect();
	format!("({})", v.join(" "))
}

pub fn stream(casefile: &str)
{
	for (id, payload) in crate::util::read_cases(casefile)
	{
		let source = String::from_utf8(payload).unwrap();
		let res = crate::util::guarded(move || {
			let sources = crate::ir::split_modules(&source);
			let parse_all = || {
				let mut modules = Vec::new();
				for (filename, source) in &sources
				{
					let tokens = lexer::lex(source, filename);
					let declarations = parser::parse(tokens);
					let filepath: std::path::PathBuf = filename.parse().unwrap();
					modules.push((filepath, declarations));
				}
				modules
			};
			let before = parse_all();
			let pre = show(&before);
			let mut results = Vec::new();
			for _ in 0..6
			{
				let mut m = parse_all();
				expander::expand(&mut m);
				results.push(show(&m));
			}
			let distinct: std::collections::BTreeSet<&String> =
				results.iter().collect();
			format!("{}\t{}\tdistinct={}", pre, results[0], distinct.len())
		});
		println!("{}\t{}", id, res);
	}
}
