#!/bin/sh
# MANIFEST.setup_cmd: build the framework from files on disk only (offline).
set -e
cd "$(dirname "$0")"
export CARGO_NET_OFFLINE=true
python3 - <<'PY'
import sys
sys.path.insert(0, ".")
from pv import common as C
st = C.translate()
print("translator:", st)
ok, out = C.build_models()
print("models/extraction:", ok, out[-2000:] if not ok else out)
ok2, out2 = C.coq_make([])
print("coq full build:", ok2, out2[-3000:] if not ok2 else "")
ok3, out3 = C.build_harness()
print("harness:", ok3, out3 if not ok3 else "")
sys.exit(0 if (ok and ok2 and ok3) else 1)
PY
