open BinNums
module S = Stdlib.String
module L = Stdlib.List
let rec pos_of_int (i : int) : positive =
  if i = 1 then Coq_xH else if i land 1 = 0 then Coq_xO (pos_of_int (i lsr 1)) else Coq_xI (pos_of_int (i lsr 1))
let n_of_int (i : int) : coq_N = if i = 0 then N0 else Npos (pos_of_int i)
(* decimal printing of arbitrary positives via Stdlib only: repeated division by 10 on a bit list *)
let rec bits_of_pos = function Coq_xH -> [1] | Coq_xO p -> 0 :: bits_of_pos p | Coq_xI p -> 1 :: bits_of_pos p
let string_of_n (x : coq_N) : string =
  match x with N0 -> "0" | Npos p ->
    (* big number as little-endian base 10^9 array *)
    let bits = L.rev (bits_of_pos p) in
    let limbs = ref [0] in
    let base = 1_000_000_000 in
    L.iter (fun bt ->
      let carry = ref bt in
      limbs := L.map (fun l -> let v = l * 2 + !carry in carry := v / base; v mod base) !limbs;
      if !carry > 0 then limbs := !limbs @ [!carry]) bits;
    let r = L.rev !limbs in
    (match r with [] -> "0" | h :: t -> S.concat "" (string_of_int h :: L.map (Printf.sprintf "%09d") t))
let string_of_z = function Z0 -> "0" | Zpos p -> string_of_n (Npos p) | Zneg p -> "-" ^ string_of_n (Npos p)
let kind_name (k : Tok.tkind) = match k with
 | Tok.KParenLeft -> "ParenLeft" | KParenRight -> "ParenRight" | KBraceLeft -> "BraceLeft" | KBraceRight -> "BraceRight"
 | KBracketLeft -> "BracketLeft" | KBracketRight -> "BracketRight" | KAngleLeft -> "AngleLeft" | KAngleRight -> "AngleRight"
 | KPipe -> "Pipe" | KAmpersand -> "Ampersand" | KCaret -> "Caret" | KExclamation -> "Exclamation" | KPlaceholder -> "Placeholder"
 | KPlus -> "Plus" | KMinus -> "Minus" | KTimes -> "Times" | KDivide -> "Divide" | KModulo -> "Modulo" | KColon -> "Colon"
 | KSemicolon -> "Semicolon" | KDot -> "Dot" | KComma -> "Comma" | KAssignment -> "Assignment" | KEquals -> "Equals"
 | KDoesNotEqual -> "DoesNotEqual" | KIsGE -> "IsGE" | KIsLE -> "IsLE" | KShiftLeft -> "ShiftLeft" | KShiftRight -> "ShiftRight"
 | KArrow -> "Arrow" | KPipeForType -> "PipeForType" | KDots -> "Dots" | KFn -> "Fn" | KVar -> "Var" | KConst -> "Const" | KIf -> "If"
 | KGoto -> "Goto" | KLoop -> "Loop" | KReturn -> "Return" | KElse -> "Else" | KCast -> "Cast" | KAs -> "As" | KImport -> "Import"
 | KPub -> "Pub" | KExtern -> "Extern" | KStruct -> "Struct" | KWord8 -> "Word8" | KWord16 -> "Word16" | KWord32 -> "Word32"
 | KWord64 -> "Word64" | KWord128 -> "Word128" | KType -> "ValueTypeKeyword" | KIdentifier -> "Identifier" | KBuiltin -> "Builtin"
 | KNakedDecimal -> "NakedDecimal" | KBitInteger -> "BitInteger" | KSuffixedInteger -> "SuffixedInteger" | KCharLiteral -> "CharLiteral"
 | KBool -> "BoolLiteral" | KStringLiteral -> "StringLiteral" | KError -> "Error"
let ty_name = function
 | None -> "-" | Some Tok.TyVoid -> "Void"
 | Some (Tok.TyPrim p) -> (match p with
   | IR.Int8 -> "Int8" | Int16 -> "Int16" | Int32 -> "Int32" | Int64 -> "Int64" | Int128 -> "Int128"
   | Uint8 -> "Uint8" | Uint16 -> "Uint16" | Uint32 -> "Uint32" | Uint64 -> "Uint64" | Uint128 -> "Uint128"
   | Usize -> "Usize" | Char8 -> "Char8" | Bool -> "Bool")
let unhex s = L.init (S.length s / 2) (fun i -> n_of_int (int_of_string ("0x" ^ S.sub s (2*i) 2)))
let () =
  let debug = Array.length Sys.argv > 1 && Sys.argv.(1) = "debug" in
  try while true do
    let line = S.trim (input_line stdin) in
    let src = unhex line in
    if debug && LexDelta.would_overflow_panic src then print_endline "PANIC" else begin
    let toks = LexDelta.lex_delta src in
    let b = Buffer.create 256 in
    L.iter (fun (t : Tok.tok) ->
      Buffer.add_string b (Printf.sprintf "%s %s %s %s %s %s %s;" (kind_name t.kind) (string_of_z t.value) (ty_name t.vtype)
        (string_of_n t.tstart) (string_of_n t.tend) (string_of_n t.line) (string_of_n t.lstart))) toks;
    let eos = match LexDelta.end_location src with
      | None -> "-" | Some ((a, l), o) -> Printf.sprintf "%s %s %s" (string_of_n a) (string_of_n l) (string_of_n o) in
    Printf.printf "%s|%s|%s|0\n" (Buffer.contents b) (string_of_n (LexDelta.num_end_tokens src)) eos
    end
  done with End_of_file -> ()
