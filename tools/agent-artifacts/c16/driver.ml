(* Reads the text produced by tokens_for_model (one token per line: Kind V T X),
   runs the extracted reference parser and prints show_module (or NONE).
   A status line goes to stderr: toks_ok=<bool> parsed=<bool> wf=<bool>. *)
open Refparser

let rec pos_of_int i =
  if i = 1 then XH else if i land 1 = 0 then XO (pos_of_int (i lsr 1)) else XI (pos_of_int (i lsr 1))
let n_of_int i = if i = 0 then N0 else Npos (pos_of_int i)
let ten = n_of_int 10
(* decimal string (up to u128 and beyond) -> N, with the extracted arithmetic *)
let n_of_decimal s =
  let acc = ref N0 in
  String.iter (fun c ->
      if c < '0' || c > '9' then failwith ("bad number " ^ s);
      acc := N.add (N.mul !acc ten) (n_of_int (Char.code c - 48))) s;
  !acc
let z_of_decimal s = Z.of_N (n_of_decimal s)
let rec int_of_pos = function XH -> 1 | XO p -> 2 * int_of_pos p | XI p -> 2 * int_of_pos p + 1
let int_of_n = function N0 -> 0 | Npos p -> int_of_pos p
let rec nat_of_int i = let r = ref O in for _ = 1 to i do r := S !r done; !r

let kind_of_string = function
  | "ParenLeft" -> KParenLeft | "ParenRight" -> KParenRight | "BraceLeft" -> KBraceLeft
  | "BraceRight" -> KBraceRight | "BracketLeft" -> KBracketLeft | "BracketRight" -> KBracketRight
  | "AngleLeft" -> KAngleLeft | "AngleRight" -> KAngleRight | "Pipe" -> KPipe
  | "Ampersand" -> KAmpersand | "Caret" -> KCaret | "Exclamation" -> KExclamation
  | "Placeholder" -> KPlaceholder | "Plus" -> KPlus | "Minus" -> KMinus | "Times" -> KTimes
  | "Divide" -> KDivide | "Modulo" -> KModulo | "Colon" -> KColon | "Semicolon" -> KSemicolon
  | "Dot" -> KDot | "Comma" -> KComma | "Assignment" -> KAssignment
  | "Equals" -> KEquals | "DoesNotEqual" -> KDoesNotEqual | "IsGE" -> KIsGE | "IsLE" -> KIsLE
  | "ShiftLeft" -> KShiftLeft | "ShiftRight" -> KShiftRight | "Arrow" -> KArrow
  | "PipeForType" -> KPipeForType | "Dots" -> KDots
  | "Fn" -> KFn | "Var" -> KVar | "Const" -> KConst | "If" -> KIf | "Goto" -> KGoto
  | "Loop" -> KLoop | "Return" -> KReturn | "Else" -> KElse | "Cast" -> KCast | "As" -> KAs
  | "Import" -> KImport | "Pub" -> KPub | "Extern" -> KExtern | "Struct" -> KStruct
  | "Word8" -> KWord8 | "Word16" -> KWord16 | "Word32" -> KWord32 | "Word64" -> KWord64
  | "Word128" -> KWord128
  | "ValueTypeKeyword" -> KType | "Identifier" -> KIdentifier | "Builtin" -> KBuiltin
  | "NakedDecimal" -> KNakedDecimal | "BitInteger" -> KBitInteger
  | "SuffixedInteger" -> KSuffixedInteger | "CharLiteral" -> KCharLiteral
  | "BoolLiteral" -> KBool | "StringLiteral" -> KStringLiteral | "Error" -> KError
  | s -> failwith ("unknown token kind " ^ s)

let type_of_string = function
  | "_" -> None
  | "void" -> Some TyVoid
  | "i8" -> Some (TyPrim Int8) | "i16" -> Some (TyPrim Int16) | "i32" -> Some (TyPrim Int32)
  | "i64" -> Some (TyPrim Int64) | "i128" -> Some (TyPrim Int128)
  | "u8" -> Some (TyPrim Uint8) | "u16" -> Some (TyPrim Uint16) | "u32" -> Some (TyPrim Uint32)
  | "u64" -> Some (TyPrim Uint64) | "u128" -> Some (TyPrim Uint128)
  | "usize" -> Some (TyPrim Usize) | "char8" -> Some (TyPrim Char8) | "bool" -> Some (TyPrim Bool)
  | s -> failwith ("unknown type " ^ s)

let bytes_of_field x =
  if x = "_" then []
  else if String.length x >= 1 && x.[0] = 'x' && (String.length x) mod 2 = 1 then
    List.init ((String.length x - 1) / 2) (fun i ->
        n_of_int (int_of_string ("0x" ^ String.sub x (1 + 2 * i) 2)))
  else []  (* a name: only informative *)

let tok_of_line line =
  match String.split_on_char ' ' line with
  | [k; v; t; x] ->
      let kind = kind_of_string k in
      let bytes = (match kind with KStringLiteral -> bytes_of_field x | _ -> []) in
      mk kind (z_of_decimal v) (type_of_string t) bytes
  | _ -> failwith ("bad token line: " ^ line)

let () =
  let ic = if Array.length Sys.argv > 1 then open_in Sys.argv.(1) else stdin in
  let toks = ref [] in
  (try
     while true do
       let l = input_line ic in
       if l <> "" then toks := tok_of_line l :: !toks
     done
   with End_of_file -> ());
  let toks = List.rev !toks in
  let fuel = nat_of_int (20 + 10 * List.length toks) in
  let ok = toks_ok toks in
  match parse_module fuel toks with
  | None ->
      Printf.eprintf "toks_ok=%b parsed=false wf=false\n" ok;
      print_string "NONE\n"
  | Some ds ->
      Printf.eprintf "toks_ok=%b parsed=true wf=%b\n" ok (wf_module ds);
      let b = Buffer.create 65536 in
      List.iter (fun c -> Buffer.add_char b (Char.chr (int_of_n c))) (show_module ds);
      print_string (Buffer.contents b)
