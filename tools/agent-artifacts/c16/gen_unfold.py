# Regenerates the unfolding lemmas of Proofs/RefParserProofs.v from Model/RefParser.v
import re
s=open('theories/Model/RefParser.v').read()
names=['as_loop','parse_addition','add_loop','bit_loop','parse_multiplication','mul_loop','parse_singular','parse_unary','parse_primary','expr_list','members_loop','parse_reference','steps_loop','parse_statement','block_loop','body_loop','typed_names','decls_loop']
out=[]
for n in names:
    m=re.search(r'(?:Fixpoint|with) '+n+r' (.*?)\{struct f\}', s, re.S)
    binders=m.group(1)
    bs=re.findall(r'\((\w+) : [^)]*\)', binders)
    assert bs[0]=='f'
    start=s.index('| S f =>\n', m.end())+len('| S f =>\n')
    end=s.index('\n  end', start)
    body=s[start:end]
    args=' '.join(bs[1:])
    binders_clean=' '.join(binders.split())
    out.append('Lemma %s_S %s :\n  %s (S f) %s =\n%s.\nProof. reflexivity. Qed.\n' % (n, binders_clean, n, args, body))
u='\n'.join(out)
p='theories/Proofs/RefParserProofs.v'
t=open(p).read()
a=t.index('Lemma as_loop_S ')
b=t.index('Ltac tkred :=')
t=t[:a]+u+'\n'+t[b:]
open(p,'w').write(t)
