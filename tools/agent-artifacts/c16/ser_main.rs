//! Differential test driver (for my own testing; the library is showser.rs).
mod showser;
use showser::*;

use std::collections::BTreeMap;
use std::io::Write;
use std::path::{Path, PathBuf};

fn collect(dir: &Path, out: &mut Vec<PathBuf>)
{
	let mut entries: Vec<_> = match std::fs::read_dir(dir)
	{
		Ok(rd) => rd.filter_map(|e| e.ok()).map(|e| e.path()).collect(),
		Err(_) => return,
	};
	entries.sort();
	for p in entries
	{
		if p.is_dir()
		{
			collect(&p, out);
		}
		else if p.extension().map(|e| e == "pn").unwrap_or(false)
		{
			out.push(p);
		}
	}
}

fn first_diff(a: &str, b: &str) -> String
{
	let ab = a.as_bytes();
	let bb = b.as_bytes();
	let mut k = 0;
	while k < ab.len() && k < bb.len() && ab[k] == bb[k]
	{
		k += 1;
	}
	let lo = k.saturating_sub(70);
	let cut = |s: &str| -> String {
		let bytes = s.as_bytes();
		let hi = std::cmp::min(bytes.len(), k + 70);
		String::from_utf8_lossy(&bytes[std::cmp::min(lo, bytes.len())..hi]).replace('\n', "\\n")
	};
	format!("at byte {}:\n      expected ...{}\n      found    ...{}", k, cut(a), cut(b))
}

fn run_reference(driver: &str, tokens_text: &str, tmp: &Path) -> Result<(String, String), String>
{
	std::fs::write(tmp, tokens_text).map_err(|e| e.to_string())?;
	let out = std::process::Command::new(driver).arg(tmp).output().map_err(|e| e.to_string())?;
	if !out.status.success()
	{
		return Err(format!("driver failed: {}", String::from_utf8_lossy(&out.stderr)));
	}
	Ok((
		String::from_utf8_lossy(&out.stdout).to_string(),
		String::from_utf8_lossy(&out.stderr).trim().to_string(),
	))
}

enum Delta
{
	LexError,
	Panic(String),
	Rejected(String),
	Xml(String),
}

fn run_delta(source: &str, filename: &str) -> Delta
{
	let result = std::panic::catch_unwind(|| {
		let tokens = penne::delta::lexer::lex(source.as_bytes(), filename);
		if tokens.errors().is_some()
		{
			return Delta::LexError;
		}
		let tree = penne::delta::parser::parse(&tokens);
		if let Some(errors) = tree.errors(&tokens)
		{
			return Delta::Rejected(format!("{:?}", errors.codes()));
		}
		let lines: Vec<String> = tree.as_xml(&tokens, source).collect();
		Delta::Xml(lines.join("\n"))
	});
	match result
	{
		Ok(x) => x,
		Err(e) =>
		{
			let msg = e
				.downcast_ref::<String>()
				.cloned()
				.or_else(|| e.downcast_ref::<&str>().map(|s| s.to_string()))
				.unwrap_or_else(|| "?".to_string());
			Delta::Panic(msg)
		}
	}
}

fn main()
{
	let args: Vec<String> = std::env::args().collect();
	let driver = args.get(1).cloned().unwrap_or("/tmp/agent-c16/ocaml/driver".to_string());
	let dirs: Vec<String> = if args.len() > 2
	{
		args[2..].to_vec()
	}
	else
	{
		vec![
			"/repo/tests/samples/valid".to_string(),
			"/repo/examples".to_string(),
			"/repo/core".to_string(),
			"/repo/vendor".to_string(),
		]
	};
	let verbose = std::env::var("SER_VERBOSE").is_ok();
	let dump_dir = std::env::var("SER_DUMP").ok();
	std::panic::set_hook(Box::new(|_| {}));

	let mut files = Vec::new();
	for d in &dirs
	{
		collect(Path::new(d), &mut files);
	}
	let tmp = std::env::temp_dir().join(format!("ser-tokens-{}.txt", std::process::id()));

	let mut count: BTreeMap<&'static str, usize> = BTreeMap::new();
	let mut examples: BTreeMap<String, Vec<String>> = BTreeMap::new();
	let mut bump = |k: &'static str| *count.entry(k).or_insert(0) += 1;
	let mut note = |k: &str, msg: String| {
		let v = examples.entry(k.to_string()).or_default();
		v.push(msg);
	};

	for path in &files
	{
		let filename = path.to_string_lossy().to_string();
		let source = match std::fs::read_to_string(path)
		{
			Ok(s) => s,
			Err(_) => continue,
		};
		bump("0 files total");
		let tokens = penne::alpha::lexer::lex(&source, &filename);
		let mut interner = Interner::new();
		let tokens_text = match tokens_for_model_with(&tokens, &mut interner)
		{
			Ok(t) => t,
			Err(e) =>
			{
				bump("1x alpha lexical error");
				note("alpha lexical error", format!("{}: {}", filename, e));
				continue;
			}
		};
		let standalone_tokens = tokens_for_model(&tokens).unwrap();
		assert_eq!(standalone_tokens, tokens_text);
		let decls = penne::alpha::parser::parse(tokens);
		let expected = match show_alpha_with(&decls, &mut interner.clone())
		{
			Ok(t) => t,
			Err(e) =>
			{
				bump("1y alpha parse has Poison");
				note("alpha poison", format!("{}: {}", filename, e));
				// The reference must reject it as well.
				if let Ok((text, _)) = run_reference(&driver, &tokens_text, &tmp)
				{
					if text != "NONE\n"
					{
						bump("1z REFERENCE ACCEPTS what alpha rejects");
						note("reference accepts, alpha rejects", filename.clone());
					}
				}
				match run_delta(&source, &filename)
				{
					Delta::Xml(xml) =>
					{
						bump("7 alpha rejects, DELTA ACCEPTS");
						let repaired = XmlOptions {
							repair_known_defects: true,
							fold_negative_literals: true,
						};
						let text = show_delta_xml_with(&xml, repaired, &mut interner.clone())
							.unwrap_or_else(|e| format!("<{}>", e));
						note("alpha rejects, delta accepts", format!("{}: {}", filename, text.trim_end()));
					}
					Delta::Panic(msg) =>
					{
						bump("7y alpha rejects, delta PANICS");
						note("alpha rejects, delta panics", format!("{}: {}", filename, msg));
					}
					Delta::Rejected(_) | Delta::LexError => bump("7z alpha rejects, delta rejects"),
				}
				continue;
			}
		};
		bump("1 parsed by alpha without Poison");
		// Interning claim: the standalone interner (first occurrence in the emitted text)
		// agrees with the one built from the tokens.
		if show_alpha(&decls).unwrap() != expected
		{
			bump("1w standalone interning differs from token-order interning");
			note("interning", filename.clone());
		}
		if let Some(dir) = &dump_dir
		{
			let stem = filename.replace('/', "_");
			let _ = std::fs::write(format!("{}/{}.tokens", dir, stem), &tokens_text);
			let _ = std::fs::write(format!("{}/{}.alpha", dir, stem), &expected);
		}

		// (a) the Coq reference
		match run_reference(&driver, &tokens_text, &tmp)
		{
			Ok((text, status)) =>
			{
				if status != "toks_ok=true parsed=true wf=true"
				{
					bump("2x reference status not ok/parsed/wf");
					note("reference status", format!("{}: {}", filename, status));
				}
				if text == expected
				{
					bump("2 reference == alpha");
				}
				else
				{
					bump("2y reference != alpha");
					note("reference != alpha", format!("{}: {}", filename, first_diff(&expected, &text)));
				}
			}
			Err(e) =>
			{
				bump("2z reference driver error");
				note("reference driver error", format!("{}: {}", filename, e));
			}
		}

		// (b) the second generation
		match run_delta(&source, &filename)
		{
			Delta::LexError =>
			{
				bump("3x delta lexical error");
				note("delta lexical error", filename.clone());
			}
			Delta::Panic(msg) =>
			{
				bump("3y delta PANIC");
				note("delta panic", format!("{}: {}", filename, msg));
			}
			Delta::Rejected(codes) =>
			{
				bump("3z delta rejects");
				note("delta rejects", format!("{}: error codes {}", filename, codes));
			}
			Delta::Xml(xml) =>
			{
				bump("3 accepted by delta");
				if let Some(dir) = &dump_dir
				{
					let stem = filename.replace('/', "_");
					let _ = std::fs::write(format!("{}/{}.xml", dir, stem), &xml);
				}
				let strict = show_delta_xml_with(&xml, XmlOptions::default(), &mut interner.clone());
				match &strict
				{
					Ok(text) if *text == expected => bump("4 delta (strict decoder) == alpha"),
					Ok(text) =>
					{
						bump("4y delta (strict decoder) != alpha");
						note("strict: delta != alpha", format!("{}: {}", filename, first_diff(&expected, text)));
					}
					Err(e) =>
					{
						bump("4z delta dump rejected by strict decoder");
						note("strict: dump rejected", format!("{}: {}", filename, e));
					}
				}
				let repaired = XmlOptions {
					repair_known_defects: true,
					fold_negative_literals: false,
				};
				match show_delta_xml_with(&xml, repaired, &mut interner.clone())
				{
					Ok(text) if text == expected => bump("5 delta (dump defects repaired) == alpha"),
					Ok(text) =>
					{
						bump("5y delta (dump defects repaired) != alpha");
						note("repaired: delta != alpha", format!("{}: {}", filename, first_diff(&expected, &text)));
					}
					Err(e) =>
					{
						bump("5z delta dump rejected even after repair");
						note("repaired: dump rejected", format!("{}: {}", filename, e));
					}
				}
				let folded = XmlOptions {
					repair_known_defects: true,
					fold_negative_literals: true,
				};
				match show_delta_xml_with(&xml, folded, &mut interner.clone())
				{
					Ok(text) if text == expected => bump("6 delta (repaired + negative literals folded) == alpha"),
					Ok(text) =>
					{
						bump("6y delta (repaired + folded) != alpha");
						note("repaired+folded: delta != alpha", format!("{}: {}", filename, first_diff(&expected, &text)));
					}
					Err(_) => bump("6z delta dump rejected even after repair"),
				}
			}
		}
	}
	let _ = std::fs::remove_file(&tmp);

	let stdout = std::io::stdout();
	let mut out = stdout.lock();
	writeln!(out, "== counts ==").unwrap();
	for (k, v) in &count
	{
		writeln!(out, "{:6}  {}", v, k).unwrap();
	}
	writeln!(out, "\n== examples ==").unwrap();
	for (k, v) in &examples
	{
		writeln!(out, "-- {} ({})", k, v.len()).unwrap();
		let limit = if verbose { usize::MAX } else { 6 };
		for m in v.iter().take(limit)
		{
			writeln!(out, "   {}", m).unwrap();
		}
	}
}
