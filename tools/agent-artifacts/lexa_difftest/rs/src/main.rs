#[allow(dead_code)]
mod lexer;
use std::io::{BufRead, Write};

#[derive(Debug, Clone, Copy, PartialEq)]
pub enum ValueType { Void, Int8, Int16, Int32, Int64, Int128, Uint8, Uint16, Uint32, Uint64, Uint128, Usize, Char8, Bool }

fn ty(t: &ValueType) -> &'static str {
    match t {
        ValueType::Void => "void", ValueType::Int8 => "i8", ValueType::Int16 => "i16", ValueType::Int32 => "i32",
        ValueType::Int64 => "i64", ValueType::Int128 => "i128", ValueType::Uint8 => "u8", ValueType::Uint16 => "u16",
        ValueType::Uint32 => "u32", ValueType::Uint64 => "u64", ValueType::Uint128 => "u128", ValueType::Usize => "usize",
        ValueType::Char8 => "char8", ValueType::Bool => "bool",
    }
}

fn main() {
    let stdin = std::io::stdin();
    let out = std::io::stdout();
    let mut out = std::io::BufWriter::new(out.lock());
    for l in stdin.lock().lines() {
        let l = l.unwrap();
        // input line: space separated decimal code points
        let s: String = l.split_whitespace().map(|w| char::from_u32(w.parse::<u32>().unwrap()).unwrap()).collect();
        let toks = lexer::lex(&s, "f");
        for t in toks {
            use lexer::Token::*;
            let (k, v, vt, bytes): (String, String, &str, Vec<u8>) = match &t.result {
                Ok(tok) => match tok {
                    NakedDecimal(v) => ("NakedDecimal".into(), v.to_string(), "-", vec![]),
                    BitInteger(v) => ("BitInteger".into(), v.to_string(), "-", vec![]),
                    SuffixedInteger { value, suffix_type } => ("SuffixedInteger".into(), value.to_string(), ty(suffix_type), vec![]),
                    CharLiteral(b) => ("CharLiteral".into(), b.to_string(), "-", vec![]),
                    Bool(b) => ("Bool".into(), (if *b { "1" } else { "0" }).into(), "-", vec![]),
                    StringLiteral { bytes } => ("StringLiteral".into(), "0".into(), "-", bytes.clone()),
                    Type(t) => ("Type".into(), "0".into(), ty(t), vec![]),
                    Identifier(_) => ("Identifier".into(), "0".into(), "-", vec![]),
                    Builtin(_) => ("Builtin".into(), "0".into(), "-", vec![]),
                    other => (format!("{:?}", other), "0".into(), "-", vec![]),
                },
                Err(e) => {
                    use lexer::Error::*;
                    let c = match e {
                        UnexpectedZeroByteFile => 101, TooManySourceBytes => 102, TooManyTokens => 103,
                        UnexpectedCharacter => 110, InvalidIntegerLength => 140, InvalidIntegerTypeSuffix => 141,
                        MissingClosingQuote => 160, UnexpectedTrailingBackslash => 161, InvalidEscapeSequence => 162,
                        InvalidCharLiteral => 163,
                    };
                    ("Error".into(), c.to_string(), "-", vec![])
                }
            };
            let bs: Vec<String> = bytes.iter().map(|b| b.to_string()).collect();
            write!(out, "{} {} {} [{}] {} {} {} {};", k, v, vt, bs.join(","), t.location.span.start, t.location.span.end, t.location.line_number, t.location.line_offset).unwrap();
        }
        writeln!(out).unwrap();
    }
}
