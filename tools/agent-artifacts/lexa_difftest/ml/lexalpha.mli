
type nat =
| O
| S of nat

val length : 'a1 list -> nat

val app : 'a1 list -> 'a1 list -> 'a1 list

type comparison =
| Eq
| Lt
| Gt

module Pos :
 sig
  type mask =
  | IsNul
  | IsPos of Big_int_Z.big_int
  | IsNeg
 end

module Coq_Pos :
 sig
  val succ : Big_int_Z.big_int -> Big_int_Z.big_int

  val add : Big_int_Z.big_int -> Big_int_Z.big_int -> Big_int_Z.big_int

  val add_carry : Big_int_Z.big_int -> Big_int_Z.big_int -> Big_int_Z.big_int

  val pred_double : Big_int_Z.big_int -> Big_int_Z.big_int

  type mask = Pos.mask =
  | IsNul
  | IsPos of Big_int_Z.big_int
  | IsNeg

  val succ_double_mask : mask -> mask

  val double_mask : mask -> mask

  val double_pred_mask : Big_int_Z.big_int -> mask

  val sub_mask : Big_int_Z.big_int -> Big_int_Z.big_int -> mask

  val sub_mask_carry : Big_int_Z.big_int -> Big_int_Z.big_int -> mask

  val mul : Big_int_Z.big_int -> Big_int_Z.big_int -> Big_int_Z.big_int

  val iter : ('a1 -> 'a1) -> 'a1 -> Big_int_Z.big_int -> 'a1

  val compare_cont :
    comparison -> Big_int_Z.big_int -> Big_int_Z.big_int -> comparison

  val compare : Big_int_Z.big_int -> Big_int_Z.big_int -> comparison

  val eqb : Big_int_Z.big_int -> Big_int_Z.big_int -> bool

  val of_succ_nat : nat -> Big_int_Z.big_int
 end

module N :
 sig
  val succ_double : Big_int_Z.big_int -> Big_int_Z.big_int

  val double : Big_int_Z.big_int -> Big_int_Z.big_int

  val add : Big_int_Z.big_int -> Big_int_Z.big_int -> Big_int_Z.big_int

  val sub : Big_int_Z.big_int -> Big_int_Z.big_int -> Big_int_Z.big_int

  val compare : Big_int_Z.big_int -> Big_int_Z.big_int -> comparison

  val eqb : Big_int_Z.big_int -> Big_int_Z.big_int -> bool

  val leb : Big_int_Z.big_int -> Big_int_Z.big_int -> bool

  val ltb : Big_int_Z.big_int -> Big_int_Z.big_int -> bool

  val pos_div_eucl :
    Big_int_Z.big_int -> Big_int_Z.big_int ->
    Big_int_Z.big_int * Big_int_Z.big_int

  val div_eucl :
    Big_int_Z.big_int -> Big_int_Z.big_int ->
    Big_int_Z.big_int * Big_int_Z.big_int

  val div : Big_int_Z.big_int -> Big_int_Z.big_int -> Big_int_Z.big_int

  val modulo : Big_int_Z.big_int -> Big_int_Z.big_int -> Big_int_Z.big_int

  val of_nat : nat -> Big_int_Z.big_int
 end

module Z :
 sig
  val double : Big_int_Z.big_int -> Big_int_Z.big_int

  val succ_double : Big_int_Z.big_int -> Big_int_Z.big_int

  val pred_double : Big_int_Z.big_int -> Big_int_Z.big_int

  val pos_sub : Big_int_Z.big_int -> Big_int_Z.big_int -> Big_int_Z.big_int

  val add : Big_int_Z.big_int -> Big_int_Z.big_int -> Big_int_Z.big_int

  val mul : Big_int_Z.big_int -> Big_int_Z.big_int -> Big_int_Z.big_int

  val pow_pos : Big_int_Z.big_int -> Big_int_Z.big_int -> Big_int_Z.big_int

  val pow : Big_int_Z.big_int -> Big_int_Z.big_int -> Big_int_Z.big_int

  val compare : Big_int_Z.big_int -> Big_int_Z.big_int -> comparison

  val leb : Big_int_Z.big_int -> Big_int_Z.big_int -> bool

  val ltb : Big_int_Z.big_int -> Big_int_Z.big_int -> bool

  val eqb : Big_int_Z.big_int -> Big_int_Z.big_int -> bool

  val to_N : Big_int_Z.big_int -> Big_int_Z.big_int

  val of_N : Big_int_Z.big_int -> Big_int_Z.big_int
 end

type prim =
| Int8
| Int16
| Int32
| Int64
| Int128
| Uint8
| Uint16
| Uint32
| Uint64
| Uint128
| Usize
| Char8
| Bool

type tkind =
| KParenLeft
| KParenRight
| KBraceLeft
| KBraceRight
| KBracketLeft
| KBracketRight
| KAngleLeft
| KAngleRight
| KPipe
| KAmpersand
| KCaret
| KExclamation
| KPlaceholder
| KPlus
| KMinus
| KTimes
| KDivide
| KModulo
| KColon
| KSemicolon
| KDot
| KComma
| KAssignment
| KEquals
| KDoesNotEqual
| KIsGE
| KIsLE
| KShiftLeft
| KShiftRight
| KArrow
| KPipeForType
| KDots
| KFn
| KVar
| KConst
| KIf
| KGoto
| KLoop
| KReturn
| KElse
| KCast
| KAs
| KImport
| KPub
| KExtern
| KStruct
| KWord8
| KWord16
| KWord32
| KWord64
| KWord128
| KType
| KIdentifier
| KBuiltin
| KNakedDecimal
| KBitInteger
| KSuffixedInteger
| KCharLiteral
| KBool
| KStringLiteral
| KError

type tykw =
| TyVoid
| TyPrim of prim

type tok = { kind : tkind; value : Big_int_Z.big_int; vtype : tykw option;
             bytes : Big_int_Z.big_int list; tstart : Big_int_Z.big_int;
             tend : Big_int_Z.big_int; line : Big_int_Z.big_int;
             lstart : Big_int_Z.big_int }

val e101 : Big_int_Z.big_int

val e110 : Big_int_Z.big_int

val e140 : Big_int_Z.big_int

val e141 : Big_int_Z.big_int

val e160 : Big_int_Z.big_int

val e161 : Big_int_Z.big_int

val e162 : Big_int_Z.big_int

val e163 : Big_int_Z.big_int

val in_range :
  Big_int_Z.big_int -> Big_int_Z.big_int -> Big_int_Z.big_int -> bool

val is_lower : Big_int_Z.big_int -> bool

val is_upper : Big_int_Z.big_int -> bool

val is_dec : Big_int_Z.big_int -> bool

val is_nonzero_dec : Big_int_Z.big_int -> bool

val is_hex : Big_int_Z.big_int -> bool

val is_bin : Big_int_Z.big_int -> bool

val is_ident_start : Big_int_Z.big_int -> bool

val is_ident_cont : Big_int_Z.big_int -> bool

val is_ascii_graphic : Big_int_Z.big_int -> bool

val is_ascii : Big_int_Z.big_int -> bool

val digit_val : Big_int_Z.big_int -> Big_int_Z.big_int

val keyword_table : (Big_int_Z.big_int list * tkind) list

val bool_table : (Big_int_Z.big_int list * Big_int_Z.big_int) list

val type_table : (Big_int_Z.big_int list * tykw) list

val suffix_table : (Big_int_Z.big_int list * prim) list

val escape_table : (Big_int_Z.big_int * Big_int_Z.big_int) list

val str_eqb : Big_int_Z.big_int list -> Big_int_Z.big_int list -> bool

val assoc :
  Big_int_Z.big_int list -> (Big_int_Z.big_int list * 'a1) list -> 'a1 option

val assoc_char :
  Big_int_Z.big_int -> (Big_int_Z.big_int * Big_int_Z.big_int) list ->
  Big_int_Z.big_int option

val len : Big_int_Z.big_int list -> Big_int_Z.big_int

val u128_LIMIT : Big_int_Z.big_int

val u32_LIMIT : Big_int_Z.big_int

val parse_acc :
  Big_int_Z.big_int -> Big_int_Z.big_int -> Big_int_Z.big_int ->
  Big_int_Z.big_int list -> Big_int_Z.big_int option

val from_str_radix :
  Big_int_Z.big_int -> Big_int_Z.big_int -> Big_int_Z.big_int list ->
  Big_int_Z.big_int option

val parse_integer_suffix : Big_int_Z.big_int list -> prim option

val take_ident :
  Big_int_Z.big_int list -> Big_int_Z.big_int list * Big_int_Z.big_int list

val take_digits :
  (Big_int_Z.big_int -> bool) -> Big_int_Z.big_int list -> (Big_int_Z.big_int
  list * Big_int_Z.big_int) * Big_int_Z.big_int list

val take_uhex :
  Big_int_Z.big_int list -> ((Big_int_Z.big_int
  list * bool) * Big_int_Z.big_int) * Big_int_Z.big_int list

type step =
| StEnd
| StSkip
| StTok of tkind * Big_int_Z.big_int * tykw option * Big_int_Z.big_int list
   * Big_int_Z.big_int * Big_int_Z.big_int list
| StStrErr of Big_int_Z.big_int * Big_int_Z.big_int * Big_int_Z.big_int
   * Big_int_Z.big_int * Big_int_Z.big_int * Big_int_Z.big_int
   * Big_int_Z.big_int list

type payload = (tkind * Big_int_Z.big_int) * tykw option

val classify_word : Big_int_Z.big_int list -> payload option

val lex_word : Big_int_Z.big_int -> Big_int_Z.big_int list -> step

val is_nil : Big_int_Z.big_int list -> bool

val finish_number :
  bool -> Big_int_Z.big_int option -> Big_int_Z.big_int list ->
  Big_int_Z.big_int list -> payload

val lex_radix :
  (Big_int_Z.big_int -> bool) -> Big_int_Z.big_int -> Big_int_Z.big_int ->
  Big_int_Z.big_int list -> step

val lex_zero : Big_int_Z.big_int list -> step

val lex_decimal : Big_int_Z.big_int -> Big_int_Z.big_int list -> step

val utf8 : Big_int_Z.big_int -> Big_int_Z.big_int list

val is_scalar : Big_int_Z.big_int -> bool

val parse_unicode : Big_int_Z.big_int list -> Big_int_Z.big_int option

val esc_step :
  Big_int_Z.big_int list -> (((Big_int_Z.big_int list * Big_int_Z.big_int
  option) * Big_int_Z.big_int) * Big_int_Z.big_int) * Big_int_Z.big_int list

type strerr =
  ((Big_int_Z.big_int * Big_int_Z.big_int) * Big_int_Z.big_int) * Big_int_Z.big_int

type strres = { sr_bytes : Big_int_Z.big_int list; sr_closed : bool;
                sr_err : strerr option; sr_soe : Big_int_Z.big_int;
                sr_eolo : Big_int_Z.big_int; sr_chars : Big_int_Z.big_int;
                sr_rest : Big_int_Z.big_int list }

val oOF : Big_int_Z.big_int

val sr_cons :
  Big_int_Z.big_int list -> strerr option -> Big_int_Z.big_int -> strres ->
  strres

val str_loop :
  nat -> Big_int_Z.big_int -> Big_int_Z.big_int -> Big_int_Z.big_int ->
  Big_int_Z.big_int list -> strres

val lex_quote : Big_int_Z.big_int -> Big_int_Z.big_int list -> step

val single : tkind -> Big_int_Z.big_int list -> step

val double0 :
  Big_int_Z.big_int -> tkind -> tkind -> Big_int_Z.big_int list -> step

val lex_step : Big_int_Z.big_int -> Big_int_Z.big_int list -> step

val mk :
  tkind -> Big_int_Z.big_int -> tykw option -> Big_int_Z.big_int list ->
  Big_int_Z.big_int -> Big_int_Z.big_int -> Big_int_Z.big_int ->
  Big_int_Z.big_int -> tok

val lex_line_fuel :
  nat -> Big_int_Z.big_int -> Big_int_Z.big_int -> Big_int_Z.big_int ->
  Big_int_Z.big_int list -> tok list

val lex_line :
  Big_int_Z.big_int list -> Big_int_Z.big_int -> Big_int_Z.big_int -> tok list

val lines_of : Big_int_Z.big_int list -> Big_int_Z.big_int list list

val lex_lines :
  Big_int_Z.big_int list list -> Big_int_Z.big_int -> Big_int_Z.big_int ->
  tok list

val zero_byte_tok : tok

val lex_alpha : Big_int_Z.big_int list -> tok list
