
type nat =
| O
| S of nat

(** val length : 'a1 list -> nat **)

let rec length = function
| [] -> O
| _ :: l' -> S (length l')

(** val app : 'a1 list -> 'a1 list -> 'a1 list **)

let rec app l m =
  match l with
  | [] -> m
  | a :: l1 -> a :: (app l1 m)

type comparison =
| Eq
| Lt
| Gt

module Pos =
 struct
  type mask =
  | IsNul
  | IsPos of Big_int_Z.big_int
  | IsNeg
 end

module Coq_Pos =
 struct
  (** val succ : Big_int_Z.big_int -> Big_int_Z.big_int **)

  let rec succ = Big_int_Z.succ_big_int

  (** val add :
      Big_int_Z.big_int -> Big_int_Z.big_int -> Big_int_Z.big_int **)

  let rec add = Big_int_Z.add_big_int

  (** val add_carry :
      Big_int_Z.big_int -> Big_int_Z.big_int -> Big_int_Z.big_int **)

  and add_carry x y =
    (fun f2p1 f2p f1 p ->
  if Big_int_Z.le_big_int p Big_int_Z.unit_big_int then f1 () else
  let (q,r) = Big_int_Z.quomod_big_int p (Big_int_Z.big_int_of_int 2) in
  if Big_int_Z.eq_big_int r Big_int_Z.zero_big_int then f2p q else f2p1 q)
      (fun p ->
      (fun f2p1 f2p f1 p ->
  if Big_int_Z.le_big_int p Big_int_Z.unit_big_int then f1 () else
  let (q,r) = Big_int_Z.quomod_big_int p (Big_int_Z.big_int_of_int 2) in
  if Big_int_Z.eq_big_int r Big_int_Z.zero_big_int then f2p q else f2p1 q)
        (fun q ->
        (fun x -> Big_int_Z.succ_big_int (Big_int_Z.mult_int_big_int 2 x))
        (add_carry p q))
        (fun q -> Big_int_Z.mult_int_big_int 2 (add_carry p q))
        (fun _ ->
        (fun x -> Big_int_Z.succ_big_int (Big_int_Z.mult_int_big_int 2 x))
        (succ p))
        y)
      (fun p ->
      (fun f2p1 f2p f1 p ->
  if Big_int_Z.le_big_int p Big_int_Z.unit_big_int then f1 () else
  let (q,r) = Big_int_Z.quomod_big_int p (Big_int_Z.big_int_of_int 2) in
  if Big_int_Z.eq_big_int r Big_int_Z.zero_big_int then f2p q else f2p1 q)
        (fun q -> Big_int_Z.mult_int_big_int 2 (add_carry p q))
        (fun q ->
        (fun x -> Big_int_Z.succ_big_int (Big_int_Z.mult_int_big_int 2 x))
        (add p q))
        (fun _ -> Big_int_Z.mult_int_big_int 2 (succ p))
        y)
      (fun _ ->
      (fun f2p1 f2p f1 p ->
  if Big_int_Z.le_big_int p Big_int_Z.unit_big_int then f1 () else
  let (q,r) = Big_int_Z.quomod_big_int p (Big_int_Z.big_int_of_int 2) in
  if Big_int_Z.eq_big_int r Big_int_Z.zero_big_int then f2p q else f2p1 q)
        (fun q ->
        (fun x -> Big_int_Z.succ_big_int (Big_int_Z.mult_int_big_int 2 x))
        (succ q))
        (fun q -> Big_int_Z.mult_int_big_int 2 (succ q))
        (fun _ ->
        (fun x -> Big_int_Z.succ_big_int (Big_int_Z.mult_int_big_int 2 x))
        Big_int_Z.unit_big_int)
        y)
      x

  (** val pred_double : Big_int_Z.big_int -> Big_int_Z.big_int **)

  let rec pred_double x =
    (fun f2p1 f2p f1 p ->
  if Big_int_Z.le_big_int p Big_int_Z.unit_big_int then f1 () else
  let (q,r) = Big_int_Z.quomod_big_int p (Big_int_Z.big_int_of_int 2) in
  if Big_int_Z.eq_big_int r Big_int_Z.zero_big_int then f2p q else f2p1 q)
      (fun p ->
      (fun x -> Big_int_Z.succ_big_int (Big_int_Z.mult_int_big_int 2 x))
      (Big_int_Z.mult_int_big_int 2 p))
      (fun p ->
      (fun x -> Big_int_Z.succ_big_int (Big_int_Z.mult_int_big_int 2 x))
      (pred_double p))
      (fun _ -> Big_int_Z.unit_big_int)
      x

  type mask = Pos.mask =
  | IsNul
  | IsPos of Big_int_Z.big_int
  | IsNeg

  (** val succ_double_mask : mask -> mask **)

  let succ_double_mask = function
  | IsNul -> IsPos Big_int_Z.unit_big_int
  | IsPos p ->
    IsPos ((fun x -> Big_int_Z.succ_big_int (Big_int_Z.mult_int_big_int 2 x))
      p)
  | IsNeg -> IsNeg

  (** val double_mask : mask -> mask **)

  let double_mask = function
  | IsPos p -> IsPos (Big_int_Z.mult_int_big_int 2 p)
  | x0 -> x0

  (** val double_pred_mask : Big_int_Z.big_int -> mask **)

  let double_pred_mask x =
    (fun f2p1 f2p f1 p ->
  if Big_int_Z.le_big_int p Big_int_Z.unit_big_int then f1 () else
  let (q,r) = Big_int_Z.quomod_big_int p (Big_int_Z.big_int_of_int 2) in
  if Big_int_Z.eq_big_int r Big_int_Z.zero_big_int then f2p q else f2p1 q)
      (fun p -> IsPos (Big_int_Z.mult_int_big_int 2
      (Big_int_Z.mult_int_big_int 2 p)))
      (fun p -> IsPos (Big_int_Z.mult_int_big_int 2
      (pred_double p)))
      (fun _ -> IsNul)
      x

  (** val sub_mask : Big_int_Z.big_int -> Big_int_Z.big_int -> mask **)

  let rec sub_mask x y =
    (fun f2p1 f2p f1 p ->
  if Big_int_Z.le_big_int p Big_int_Z.unit_big_int then f1 () else
  let (q,r) = Big_int_Z.quomod_big_int p (Big_int_Z.big_int_of_int 2) in
  if Big_int_Z.eq_big_int r Big_int_Z.zero_big_int then f2p q else f2p1 q)
      (fun p ->
      (fun f2p1 f2p f1 p ->
  if Big_int_Z.le_big_int p Big_int_Z.unit_big_int then f1 () else
  let (q,r) = Big_int_Z.quomod_big_int p (Big_int_Z.big_int_of_int 2) in
  if Big_int_Z.eq_big_int r Big_int_Z.zero_big_int then f2p q else f2p1 q)
        (fun q -> double_mask (sub_mask p q))
        (fun q -> succ_double_mask (sub_mask p q))
        (fun _ -> IsPos (Big_int_Z.mult_int_big_int 2 p))
        y)
      (fun p ->
      (fun f2p1 f2p f1 p ->
  if Big_int_Z.le_big_int p Big_int_Z.unit_big_int then f1 () else
  let (q,r) = Big_int_Z.quomod_big_int p (Big_int_Z.big_int_of_int 2) in
  if Big_int_Z.eq_big_int r Big_int_Z.zero_big_int then f2p q else f2p1 q)
        (fun q -> succ_double_mask (sub_mask_carry p q))
        (fun q -> double_mask (sub_mask p q))
        (fun _ -> IsPos (pred_double p))
        y)
      (fun _ ->
      (fun f2p1 f2p f1 p ->
  if Big_int_Z.le_big_int p Big_int_Z.unit_big_int then f1 () else
  let (q,r) = Big_int_Z.quomod_big_int p (Big_int_Z.big_int_of_int 2) in
  if Big_int_Z.eq_big_int r Big_int_Z.zero_big_int then f2p q else f2p1 q)
        (fun _ -> IsNeg)
        (fun _ -> IsNeg)
        (fun _ -> IsNul)
        y)
      x

  (** val sub_mask_carry : Big_int_Z.big_int -> Big_int_Z.big_int -> mask **)

  and sub_mask_carry x y =
    (fun f2p1 f2p f1 p ->
  if Big_int_Z.le_big_int p Big_int_Z.unit_big_int then f1 () else
  let (q,r) = Big_int_Z.quomod_big_int p (Big_int_Z.big_int_of_int 2) in
  if Big_int_Z.eq_big_int r Big_int_Z.zero_big_int then f2p q else f2p1 q)
      (fun p ->
      (fun f2p1 f2p f1 p ->
  if Big_int_Z.le_big_int p Big_int_Z.unit_big_int then f1 () else
  let (q,r) = Big_int_Z.quomod_big_int p (Big_int_Z.big_int_of_int 2) in
  if Big_int_Z.eq_big_int r Big_int_Z.zero_big_int then f2p q else f2p1 q)
        (fun q -> succ_double_mask (sub_mask_carry p q))
        (fun q -> double_mask (sub_mask p q))
        (fun _ -> IsPos (pred_double p))
        y)
      (fun p ->
      (fun f2p1 f2p f1 p ->
  if Big_int_Z.le_big_int p Big_int_Z.unit_big_int then f1 () else
  let (q,r) = Big_int_Z.quomod_big_int p (Big_int_Z.big_int_of_int 2) in
  if Big_int_Z.eq_big_int r Big_int_Z.zero_big_int then f2p q else f2p1 q)
        (fun q -> double_mask (sub_mask_carry p q))
        (fun q -> succ_double_mask (sub_mask_carry p q))
        (fun _ -> double_pred_mask p)
        y)
      (fun _ -> IsNeg)
      x

  (** val mul :
      Big_int_Z.big_int -> Big_int_Z.big_int -> Big_int_Z.big_int **)

  let rec mul = Big_int_Z.mult_big_int

  (** val iter : ('a1 -> 'a1) -> 'a1 -> Big_int_Z.big_int -> 'a1 **)

  let rec iter f x n0 =
    (fun f2p1 f2p f1 p ->
  if Big_int_Z.le_big_int p Big_int_Z.unit_big_int then f1 () else
  let (q,r) = Big_int_Z.quomod_big_int p (Big_int_Z.big_int_of_int 2) in
  if Big_int_Z.eq_big_int r Big_int_Z.zero_big_int then f2p q else f2p1 q)
      (fun n' -> f (iter f (iter f x n') n'))
      (fun n' -> iter f (iter f x n') n')
      (fun _ -> f x)
      n0

  (** val compare_cont :
      comparison -> Big_int_Z.big_int -> Big_int_Z.big_int -> comparison **)

  let rec compare_cont = (fun c x y -> let s = Big_int_Z.compare_big_int x y in
  if s = 0 then c else if s < 0 then Lt else Gt)

  (** val compare : Big_int_Z.big_int -> Big_int_Z.big_int -> comparison **)

  let compare = (fun x y -> let s = Big_int_Z.compare_big_int x y in
  if s = 0 then Eq else if s < 0 then Lt else Gt)

  (** val eqb : Big_int_Z.big_int -> Big_int_Z.big_int -> bool **)

  let rec eqb p q =
    (fun f2p1 f2p f1 p ->
  if Big_int_Z.le_big_int p Big_int_Z.unit_big_int then f1 () else
  let (q,r) = Big_int_Z.quomod_big_int p (Big_int_Z.big_int_of_int 2) in
  if Big_int_Z.eq_big_int r Big_int_Z.zero_big_int then f2p q else f2p1 q)
      (fun p0 ->
      (fun f2p1 f2p f1 p ->
  if Big_int_Z.le_big_int p Big_int_Z.unit_big_int then f1 () else
  let (q,r) = Big_int_Z.quomod_big_int p (Big_int_Z.big_int_of_int 2) in
  if Big_int_Z.eq_big_int r Big_int_Z.zero_big_int then f2p q else f2p1 q)
        (fun q0 -> eqb p0 q0)
        (fun _ -> false)
        (fun _ -> false)
        q)
      (fun p0 ->
      (fun f2p1 f2p f1 p ->
  if Big_int_Z.le_big_int p Big_int_Z.unit_big_int then f1 () else
  let (q,r) = Big_int_Z.quomod_big_int p (Big_int_Z.big_int_of_int 2) in
  if Big_int_Z.eq_big_int r Big_int_Z.zero_big_int then f2p q else f2p1 q)
        (fun _ -> false)
        (fun q0 -> eqb p0 q0)
        (fun _ -> false)
        q)
      (fun _ ->
      (fun f2p1 f2p f1 p ->
  if Big_int_Z.le_big_int p Big_int_Z.unit_big_int then f1 () else
  let (q,r) = Big_int_Z.quomod_big_int p (Big_int_Z.big_int_of_int 2) in
  if Big_int_Z.eq_big_int r Big_int_Z.zero_big_int then f2p q else f2p1 q)
        (fun _ -> false)
        (fun _ -> false)
        (fun _ -> true)
        q)
      p

  (** val of_succ_nat : nat -> Big_int_Z.big_int **)

  let rec of_succ_nat = function
  | O -> Big_int_Z.unit_big_int
  | S x -> succ (of_succ_nat x)
 end

module N =
 struct
  (** val succ_double : Big_int_Z.big_int -> Big_int_Z.big_int **)

  let succ_double x =
    (fun fO fp n -> if Big_int_Z.sign_big_int n <= 0 then fO () else fp n)
      (fun _ -> Big_int_Z.unit_big_int)
      (fun p ->
      ((fun x -> Big_int_Z.succ_big_int (Big_int_Z.mult_int_big_int 2 x)) p))
      x

  (** val double : Big_int_Z.big_int -> Big_int_Z.big_int **)

  let double n0 =
    (fun fO fp n -> if Big_int_Z.sign_big_int n <= 0 then fO () else fp n)
      (fun _ -> Big_int_Z.zero_big_int)
      (fun p -> (Big_int_Z.mult_int_big_int 2 p))
      n0

  (** val add :
      Big_int_Z.big_int -> Big_int_Z.big_int -> Big_int_Z.big_int **)

  let add = Big_int_Z.add_big_int

  (** val sub :
      Big_int_Z.big_int -> Big_int_Z.big_int -> Big_int_Z.big_int **)

  let sub = (fun n m -> Big_int_Z.max_big_int Big_int_Z.zero_big_int
  (Big_int_Z.sub_big_int n m))

  (** val compare : Big_int_Z.big_int -> Big_int_Z.big_int -> comparison **)

  let compare = (fun x y -> let s = Big_int_Z.compare_big_int x y in
  if s = 0 then Eq else if s < 0 then Lt else Gt)

  (** val eqb : Big_int_Z.big_int -> Big_int_Z.big_int -> bool **)

  let eqb n0 m =
    (fun fO fp n -> if Big_int_Z.sign_big_int n <= 0 then fO () else fp n)
      (fun _ ->
      (fun fO fp n -> if Big_int_Z.sign_big_int n <= 0 then fO () else fp n)
        (fun _ -> true)
        (fun _ -> false)
        m)
      (fun p ->
      (fun fO fp n -> if Big_int_Z.sign_big_int n <= 0 then fO () else fp n)
        (fun _ -> false)
        (fun q -> Coq_Pos.eqb p q)
        m)
      n0

  (** val leb : Big_int_Z.big_int -> Big_int_Z.big_int -> bool **)

  let leb x y =
    match compare x y with
    | Gt -> false
    | _ -> true

  (** val ltb : Big_int_Z.big_int -> Big_int_Z.big_int -> bool **)

  let ltb x y =
    match compare x y with
    | Lt -> true
    | _ -> false

  (** val pos_div_eucl :
      Big_int_Z.big_int -> Big_int_Z.big_int ->
      Big_int_Z.big_int * Big_int_Z.big_int **)

  let rec pos_div_eucl a b =
    (fun f2p1 f2p f1 p ->
  if Big_int_Z.le_big_int p Big_int_Z.unit_big_int then f1 () else
  let (q,r) = Big_int_Z.quomod_big_int p (Big_int_Z.big_int_of_int 2) in
  if Big_int_Z.eq_big_int r Big_int_Z.zero_big_int then f2p q else f2p1 q)
      (fun a' ->
      let (q, r) = pos_div_eucl a' b in
      let r' = succ_double r in
      if leb b r' then ((succ_double q), (sub r' b)) else ((double q), r'))
      (fun a' ->
      let (q, r) = pos_div_eucl a' b in
      let r' = double r in
      if leb b r' then ((succ_double q), (sub r' b)) else ((double q), r'))
      (fun _ ->
      (fun fO fp n -> if Big_int_Z.sign_big_int n <= 0 then fO () else fp n)
        (fun _ -> (Big_int_Z.zero_big_int, Big_int_Z.unit_big_int))
        (fun p ->
        (fun f2p1 f2p f1 p ->
  if Big_int_Z.le_big_int p Big_int_Z.unit_big_int then f1 () else
  let (q,r) = Big_int_Z.quomod_big_int p (Big_int_Z.big_int_of_int 2) in
  if Big_int_Z.eq_big_int r Big_int_Z.zero_big_int then f2p q else f2p1 q)
          (fun _ -> (Big_int_Z.zero_big_int,
          Big_int_Z.unit_big_int))
          (fun _ -> (Big_int_Z.zero_big_int,
          Big_int_Z.unit_big_int))
          (fun _ -> (Big_int_Z.unit_big_int, Big_int_Z.zero_big_int))
          p)
        b)
      a

  (** val div_eucl :
      Big_int_Z.big_int -> Big_int_Z.big_int ->
      Big_int_Z.big_int * Big_int_Z.big_int **)

  let div_eucl = Big_int_Z.(fun x y ->
    if eq_big_int zero_big_int y then (zero_big_int, x) else
    quomod_big_int x y)

  (** val div :
      Big_int_Z.big_int -> Big_int_Z.big_int -> Big_int_Z.big_int **)

  let div = (fun a b -> if Big_int_Z.eq_big_int b Big_int_Z.zero_big_int
  then Big_int_Z.zero_big_int else Big_int_Z.div_big_int a b)

  (** val modulo :
      Big_int_Z.big_int -> Big_int_Z.big_int -> Big_int_Z.big_int **)

  let modulo = (fun a b -> if Big_int_Z.eq_big_int b Big_int_Z.zero_big_int
  then a else Big_int_Z.mod_big_int a b)

  (** val of_nat : nat -> Big_int_Z.big_int **)

  let of_nat = function
  | O -> Big_int_Z.zero_big_int
  | S n' -> (Coq_Pos.of_succ_nat n')
 end

module Z =
 struct
  (** val double : Big_int_Z.big_int -> Big_int_Z.big_int **)

  let double x =
    (fun fO fp fn z -> let s = Big_int_Z.sign_big_int z in
  if s = 0 then fO () else if s > 0 then fp z
  else fn (Big_int_Z.minus_big_int z))
      (fun _ -> Big_int_Z.zero_big_int)
      (fun p -> (Big_int_Z.mult_int_big_int 2 p))
      (fun p -> Big_int_Z.minus_big_int (Big_int_Z.mult_int_big_int 2 p))
      x

  (** val succ_double : Big_int_Z.big_int -> Big_int_Z.big_int **)

  let succ_double x =
    (fun fO fp fn z -> let s = Big_int_Z.sign_big_int z in
  if s = 0 then fO () else if s > 0 then fp z
  else fn (Big_int_Z.minus_big_int z))
      (fun _ -> Big_int_Z.unit_big_int)
      (fun p ->
      ((fun x -> Big_int_Z.succ_big_int (Big_int_Z.mult_int_big_int 2 x))
      p))
      (fun p -> Big_int_Z.minus_big_int (Coq_Pos.pred_double p))
      x

  (** val pred_double : Big_int_Z.big_int -> Big_int_Z.big_int **)

  let pred_double x =
    (fun fO fp fn z -> let s = Big_int_Z.sign_big_int z in
  if s = 0 then fO () else if s > 0 then fp z
  else fn (Big_int_Z.minus_big_int z))
      (fun _ -> Big_int_Z.minus_big_int Big_int_Z.unit_big_int)
      (fun p -> (Coq_Pos.pred_double p))
      (fun p -> Big_int_Z.minus_big_int
      ((fun x -> Big_int_Z.succ_big_int (Big_int_Z.mult_int_big_int 2 x)) p))
      x

  (** val pos_sub :
      Big_int_Z.big_int -> Big_int_Z.big_int -> Big_int_Z.big_int **)

  let rec pos_sub x y =
    (fun f2p1 f2p f1 p ->
  if Big_int_Z.le_big_int p Big_int_Z.unit_big_int then f1 () else
  let (q,r) = Big_int_Z.quomod_big_int p (Big_int_Z.big_int_of_int 2) in
  if Big_int_Z.eq_big_int r Big_int_Z.zero_big_int then f2p q else f2p1 q)
      (fun p ->
      (fun f2p1 f2p f1 p ->
  if Big_int_Z.le_big_int p Big_int_Z.unit_big_int then f1 () else
  let (q,r) = Big_int_Z.quomod_big_int p (Big_int_Z.big_int_of_int 2) in
  if Big_int_Z.eq_big_int r Big_int_Z.zero_big_int then f2p q else f2p1 q)
        (fun q -> double (pos_sub p q))
        (fun q -> succ_double (pos_sub p q))
        (fun _ -> (Big_int_Z.mult_int_big_int 2 p))
        y)
      (fun p ->
      (fun f2p1 f2p f1 p ->
  if Big_int_Z.le_big_int p Big_int_Z.unit_big_int then f1 () else
  let (q,r) = Big_int_Z.quomod_big_int p (Big_int_Z.big_int_of_int 2) in
  if Big_int_Z.eq_big_int r Big_int_Z.zero_big_int then f2p q else f2p1 q)
        (fun q -> pred_double (pos_sub p q))
        (fun q -> double (pos_sub p q))
        (fun _ -> (Coq_Pos.pred_double p))
        y)
      (fun _ ->
      (fun f2p1 f2p f1 p ->
  if Big_int_Z.le_big_int p Big_int_Z.unit_big_int then f1 () else
  let (q,r) = Big_int_Z.quomod_big_int p (Big_int_Z.big_int_of_int 2) in
  if Big_int_Z.eq_big_int r Big_int_Z.zero_big_int then f2p q else f2p1 q)
        (fun q -> Big_int_Z.minus_big_int (Big_int_Z.mult_int_big_int 2
        q))
        (fun q -> Big_int_Z.minus_big_int (Coq_Pos.pred_double q))
        (fun _ -> Big_int_Z.zero_big_int)
        y)
      x

  (** val add :
      Big_int_Z.big_int -> Big_int_Z.big_int -> Big_int_Z.big_int **)

  let add = Big_int_Z.add_big_int

  (** val mul :
      Big_int_Z.big_int -> Big_int_Z.big_int -> Big_int_Z.big_int **)

  let mul = Big_int_Z.mult_big_int

  (** val pow_pos :
      Big_int_Z.big_int -> Big_int_Z.big_int -> Big_int_Z.big_int **)

  let pow_pos z0 =
    Coq_Pos.iter (mul z0) Big_int_Z.unit_big_int

  (** val pow :
      Big_int_Z.big_int -> Big_int_Z.big_int -> Big_int_Z.big_int **)

  let pow x y =
    (fun fO fp fn z -> let s = Big_int_Z.sign_big_int z in
  if s = 0 then fO () else if s > 0 then fp z
  else fn (Big_int_Z.minus_big_int z))
      (fun _ -> Big_int_Z.unit_big_int)
      (fun p -> pow_pos x p)
      (fun _ -> Big_int_Z.zero_big_int)
      y

  (** val compare : Big_int_Z.big_int -> Big_int_Z.big_int -> comparison **)

  let compare = (fun x y -> let s = Big_int_Z.compare_big_int x y in
  if s = 0 then Eq else if s < 0 then Lt else Gt)

  (** val leb : Big_int_Z.big_int -> Big_int_Z.big_int -> bool **)

  let leb x y =
    match compare x y with
    | Gt -> false
    | _ -> true

  (** val ltb : Big_int_Z.big_int -> Big_int_Z.big_int -> bool **)

  let ltb x y =
    match compare x y with
    | Lt -> true
    | _ -> false

  (** val eqb : Big_int_Z.big_int -> Big_int_Z.big_int -> bool **)

  let eqb = Big_int_Z.eq_big_int

  (** val to_N : Big_int_Z.big_int -> Big_int_Z.big_int **)

  let to_N = Big_int_Z.(fun p -> if sign_big_int p < 0 then zero_big_int else p)

  (** val of_N : Big_int_Z.big_int -> Big_int_Z.big_int **)

  let of_N = (fun p -> p)
 end

type prim =
| Int8
| Int16
| Int32
| Int64
| Int128
| Uint8
| Uint16
| Uint32
| Uint64
| Uint128
| Usize
| Char8
| Bool

type tkind =
| KParenLeft
| KParenRight
| KBraceLeft
| KBraceRight
| KBracketLeft
| KBracketRight
| KAngleLeft
| KAngleRight
| KPipe
| KAmpersand
| KCaret
| KExclamation
| KPlaceholder
| KPlus
| KMinus
| KTimes
| KDivide
| KModulo
| KColon
| KSemicolon
| KDot
| KComma
| KAssignment
| KEquals
| KDoesNotEqual
| KIsGE
| KIsLE
| KShiftLeft
| KShiftRight
| KArrow
| KPipeForType
| KDots
| KFn
| KVar
| KConst
| KIf
| KGoto
| KLoop
| KReturn
| KElse
| KCast
| KAs
| KImport
| KPub
| KExtern
| KStruct
| KWord8
| KWord16
| KWord32
| KWord64
| KWord128
| KType
| KIdentifier
| KBuiltin
| KNakedDecimal
| KBitInteger
| KSuffixedInteger
| KCharLiteral
| KBool
| KStringLiteral
| KError

type tykw =
| TyVoid
| TyPrim of prim

type tok = { kind : tkind; value : Big_int_Z.big_int; vtype : tykw option;
             bytes : Big_int_Z.big_int list; tstart : Big_int_Z.big_int;
             tend : Big_int_Z.big_int; line : Big_int_Z.big_int;
             lstart : Big_int_Z.big_int }

(** val e101 : Big_int_Z.big_int **)

let e101 =
  ((fun x -> Big_int_Z.succ_big_int (Big_int_Z.mult_int_big_int 2 x))
    (Big_int_Z.mult_int_big_int 2
    ((fun x -> Big_int_Z.succ_big_int (Big_int_Z.mult_int_big_int 2 x))
    (Big_int_Z.mult_int_big_int 2 (Big_int_Z.mult_int_big_int 2
    ((fun x -> Big_int_Z.succ_big_int (Big_int_Z.mult_int_big_int 2 x))
    Big_int_Z.unit_big_int))))))

(** val e110 : Big_int_Z.big_int **)

let e110 =
  (Big_int_Z.mult_int_big_int 2
    ((fun x -> Big_int_Z.succ_big_int (Big_int_Z.mult_int_big_int 2 x))
    ((fun x -> Big_int_Z.succ_big_int (Big_int_Z.mult_int_big_int 2 x))
    ((fun x -> Big_int_Z.succ_big_int (Big_int_Z.mult_int_big_int 2 x))
    (Big_int_Z.mult_int_big_int 2
    ((fun x -> Big_int_Z.succ_big_int (Big_int_Z.mult_int_big_int 2 x))
    Big_int_Z.unit_big_int))))))

(** val e140 : Big_int_Z.big_int **)

let e140 =
  (Big_int_Z.mult_int_big_int 2 (Big_int_Z.mult_int_big_int 2
    ((fun x -> Big_int_Z.succ_big_int (Big_int_Z.mult_int_big_int 2 x))
    ((fun x -> Big_int_Z.succ_big_int (Big_int_Z.mult_int_big_int 2 x))
    (Big_int_Z.mult_int_big_int 2 (Big_int_Z.mult_int_big_int 2
    (Big_int_Z.mult_int_big_int 2 Big_int_Z.unit_big_int)))))))

(** val e141 : Big_int_Z.big_int **)

let e141 =
  ((fun x -> Big_int_Z.succ_big_int (Big_int_Z.mult_int_big_int 2 x))
    (Big_int_Z.mult_int_big_int 2
    ((fun x -> Big_int_Z.succ_big_int (Big_int_Z.mult_int_big_int 2 x))
    ((fun x -> Big_int_Z.succ_big_int (Big_int_Z.mult_int_big_int 2 x))
    (Big_int_Z.mult_int_big_int 2 (Big_int_Z.mult_int_big_int 2
    (Big_int_Z.mult_int_big_int 2 Big_int_Z.unit_big_int)))))))

(** val e160 : Big_int_Z.big_int **)

let e160 =
  (Big_int_Z.mult_int_big_int 2 (Big_int_Z.mult_int_big_int 2
    (Big_int_Z.mult_int_big_int 2 (Big_int_Z.mult_int_big_int 2
    (Big_int_Z.mult_int_big_int 2
    ((fun x -> Big_int_Z.succ_big_int (Big_int_Z.mult_int_big_int 2 x))
    (Big_int_Z.mult_int_big_int 2 Big_int_Z.unit_big_int)))))))

(** val e161 : Big_int_Z.big_int **)

let e161 =
  ((fun x -> Big_int_Z.succ_big_int (Big_int_Z.mult_int_big_int 2 x))
    (Big_int_Z.mult_int_big_int 2 (Big_int_Z.mult_int_big_int 2
    (Big_int_Z.mult_int_big_int 2 (Big_int_Z.mult_int_big_int 2
    ((fun x -> Big_int_Z.succ_big_int (Big_int_Z.mult_int_big_int 2 x))
    (Big_int_Z.mult_int_big_int 2 Big_int_Z.unit_big_int)))))))

(** val e162 : Big_int_Z.big_int **)

let e162 =
  (Big_int_Z.mult_int_big_int 2
    ((fun x -> Big_int_Z.succ_big_int (Big_int_Z.mult_int_big_int 2 x))
    (Big_int_Z.mult_int_big_int 2 (Big_int_Z.mult_int_big_int 2
    (Big_int_Z.mult_int_big_int 2
    ((fun x -> Big_int_Z.succ_big_int (Big_int_Z.mult_int_big_int 2 x))
    (Big_int_Z.mult_int_big_int 2 Big_int_Z.unit_big_int)))))))

(** val e163 : Big_int_Z.big_int **)

let e163 =
  ((fun x -> Big_int_Z.succ_big_int (Big_int_Z.mult_int_big_int 2 x))
    ((fun x -> Big_int_Z.succ_big_int (Big_int_Z.mult_int_big_int 2 x))
    (Big_int_Z.mult_int_big_int 2 (Big_int_Z.mult_int_big_int 2
    (Big_int_Z.mult_int_big_int 2
    ((fun x -> Big_int_Z.succ_big_int (Big_int_Z.mult_int_big_int 2 x))
    (Big_int_Z.mult_int_big_int 2 Big_int_Z.unit_big_int)))))))

(** val in_range :
    Big_int_Z.big_int -> Big_int_Z.big_int -> Big_int_Z.big_int -> bool **)

let in_range lo hi c =
  (&&) (N.leb lo c) (N.leb c hi)

(** val is_lower : Big_int_Z.big_int -> bool **)

let is_lower c =
  in_range
    ((fun x -> Big_int_Z.succ_big_int (Big_int_Z.mult_int_big_int 2 x))
    (Big_int_Z.mult_int_big_int 2 (Big_int_Z.mult_int_big_int 2
    (Big_int_Z.mult_int_big_int 2 (Big_int_Z.mult_int_big_int 2
    ((fun x -> Big_int_Z.succ_big_int (Big_int_Z.mult_int_big_int 2 x))
    Big_int_Z.unit_big_int)))))) (Big_int_Z.mult_int_big_int 2
    ((fun x -> Big_int_Z.succ_big_int (Big_int_Z.mult_int_big_int 2 x))
    (Big_int_Z.mult_int_big_int 2
    ((fun x -> Big_int_Z.succ_big_int (Big_int_Z.mult_int_big_int 2 x))
    ((fun x -> Big_int_Z.succ_big_int (Big_int_Z.mult_int_big_int 2 x))
    ((fun x -> Big_int_Z.succ_big_int (Big_int_Z.mult_int_big_int 2 x))
    Big_int_Z.unit_big_int)))))) c

(** val is_upper : Big_int_Z.big_int -> bool **)

let is_upper c =
  in_range
    ((fun x -> Big_int_Z.succ_big_int (Big_int_Z.mult_int_big_int 2 x))
    (Big_int_Z.mult_int_big_int 2 (Big_int_Z.mult_int_big_int 2
    (Big_int_Z.mult_int_big_int 2 (Big_int_Z.mult_int_big_int 2
    (Big_int_Z.mult_int_big_int 2 Big_int_Z.unit_big_int))))))
    (Big_int_Z.mult_int_big_int 2
    ((fun x -> Big_int_Z.succ_big_int (Big_int_Z.mult_int_big_int 2 x))
    (Big_int_Z.mult_int_big_int 2
    ((fun x -> Big_int_Z.succ_big_int (Big_int_Z.mult_int_big_int 2 x))
    ((fun x -> Big_int_Z.succ_big_int (Big_int_Z.mult_int_big_int 2 x))
    (Big_int_Z.mult_int_big_int 2 Big_int_Z.unit_big_int)))))) c

(** val is_dec : Big_int_Z.big_int -> bool **)

let is_dec c =
  in_range (Big_int_Z.mult_int_big_int 2 (Big_int_Z.mult_int_big_int 2
    (Big_int_Z.mult_int_big_int 2 (Big_int_Z.mult_int_big_int 2
    ((fun x -> Big_int_Z.succ_big_int (Big_int_Z.mult_int_big_int 2 x))
    Big_int_Z.unit_big_int)))))
    ((fun x -> Big_int_Z.succ_big_int (Big_int_Z.mult_int_big_int 2 x))
    (Big_int_Z.mult_int_big_int 2 (Big_int_Z.mult_int_big_int 2
    ((fun x -> Big_int_Z.succ_big_int (Big_int_Z.mult_int_big_int 2 x))
    ((fun x -> Big_int_Z.succ_big_int (Big_int_Z.mult_int_big_int 2 x))
    Big_int_Z.unit_big_int))))) c

(** val is_nonzero_dec : Big_int_Z.big_int -> bool **)

let is_nonzero_dec c =
  in_range
    ((fun x -> Big_int_Z.succ_big_int (Big_int_Z.mult_int_big_int 2 x))
    (Big_int_Z.mult_int_big_int 2 (Big_int_Z.mult_int_big_int 2
    (Big_int_Z.mult_int_big_int 2
    ((fun x -> Big_int_Z.succ_big_int (Big_int_Z.mult_int_big_int 2 x))
    Big_int_Z.unit_big_int)))))
    ((fun x -> Big_int_Z.succ_big_int (Big_int_Z.mult_int_big_int 2 x))
    (Big_int_Z.mult_int_big_int 2 (Big_int_Z.mult_int_big_int 2
    ((fun x -> Big_int_Z.succ_big_int (Big_int_Z.mult_int_big_int 2 x))
    ((fun x -> Big_int_Z.succ_big_int (Big_int_Z.mult_int_big_int 2 x))
    Big_int_Z.unit_big_int))))) c

(** val is_hex : Big_int_Z.big_int -> bool **)

let is_hex c =
  (||)
    ((||) (is_dec c)
      (in_range
        ((fun x -> Big_int_Z.succ_big_int (Big_int_Z.mult_int_big_int 2 x))
        (Big_int_Z.mult_int_big_int 2 (Big_int_Z.mult_int_big_int 2
        (Big_int_Z.mult_int_big_int 2 (Big_int_Z.mult_int_big_int 2
        ((fun x -> Big_int_Z.succ_big_int (Big_int_Z.mult_int_big_int 2 x))
        Big_int_Z.unit_big_int)))))) (Big_int_Z.mult_int_big_int 2
        ((fun x -> Big_int_Z.succ_big_int (Big_int_Z.mult_int_big_int 2 x))
        ((fun x -> Big_int_Z.succ_big_int (Big_int_Z.mult_int_big_int 2 x))
        (Big_int_Z.mult_int_big_int 2 (Big_int_Z.mult_int_big_int 2
        ((fun x -> Big_int_Z.succ_big_int (Big_int_Z.mult_int_big_int 2 x))
        Big_int_Z.unit_big_int)))))) c))
    (in_range
      ((fun x -> Big_int_Z.succ_big_int (Big_int_Z.mult_int_big_int 2 x))
      (Big_int_Z.mult_int_big_int 2 (Big_int_Z.mult_int_big_int 2
      (Big_int_Z.mult_int_big_int 2 (Big_int_Z.mult_int_big_int 2
      (Big_int_Z.mult_int_big_int 2 Big_int_Z.unit_big_int))))))
      (Big_int_Z.mult_int_big_int 2
      ((fun x -> Big_int_Z.succ_big_int (Big_int_Z.mult_int_big_int 2 x))
      ((fun x -> Big_int_Z.succ_big_int (Big_int_Z.mult_int_big_int 2 x))
      (Big_int_Z.mult_int_big_int 2 (Big_int_Z.mult_int_big_int 2
      (Big_int_Z.mult_int_big_int 2 Big_int_Z.unit_big_int)))))) c)

(** val is_bin : Big_int_Z.big_int -> bool **)

let is_bin c =
  (||)
    (N.eqb c (Big_int_Z.mult_int_big_int 2 (Big_int_Z.mult_int_big_int 2
      (Big_int_Z.mult_int_big_int 2 (Big_int_Z.mult_int_big_int 2
      ((fun x -> Big_int_Z.succ_big_int (Big_int_Z.mult_int_big_int 2 x))
      Big_int_Z.unit_big_int))))))
    (N.eqb c
      ((fun x -> Big_int_Z.succ_big_int (Big_int_Z.mult_int_big_int 2 x))
      (Big_int_Z.mult_int_big_int 2 (Big_int_Z.mult_int_big_int 2
      (Big_int_Z.mult_int_big_int 2
      ((fun x -> Big_int_Z.succ_big_int (Big_int_Z.mult_int_big_int 2 x))
      Big_int_Z.unit_big_int))))))

(** val is_ident_start : Big_int_Z.big_int -> bool **)

let is_ident_start c =
  (||) ((||) (is_lower c) (is_upper c))
    (N.eqb c
      ((fun x -> Big_int_Z.succ_big_int (Big_int_Z.mult_int_big_int 2 x))
      ((fun x -> Big_int_Z.succ_big_int (Big_int_Z.mult_int_big_int 2 x))
      ((fun x -> Big_int_Z.succ_big_int (Big_int_Z.mult_int_big_int 2 x))
      ((fun x -> Big_int_Z.succ_big_int (Big_int_Z.mult_int_big_int 2 x))
      ((fun x -> Big_int_Z.succ_big_int (Big_int_Z.mult_int_big_int 2 x))
      (Big_int_Z.mult_int_big_int 2 Big_int_Z.unit_big_int)))))))

(** val is_ident_cont : Big_int_Z.big_int -> bool **)

let is_ident_cont c =
  (||) ((||) ((||) (is_lower c) (is_upper c)) (is_dec c))
    (N.eqb c
      ((fun x -> Big_int_Z.succ_big_int (Big_int_Z.mult_int_big_int 2 x))
      ((fun x -> Big_int_Z.succ_big_int (Big_int_Z.mult_int_big_int 2 x))
      ((fun x -> Big_int_Z.succ_big_int (Big_int_Z.mult_int_big_int 2 x))
      ((fun x -> Big_int_Z.succ_big_int (Big_int_Z.mult_int_big_int 2 x))
      ((fun x -> Big_int_Z.succ_big_int (Big_int_Z.mult_int_big_int 2 x))
      (Big_int_Z.mult_int_big_int 2 Big_int_Z.unit_big_int)))))))

(** val is_ascii_graphic : Big_int_Z.big_int -> bool **)

let is_ascii_graphic c =
  in_range
    ((fun x -> Big_int_Z.succ_big_int (Big_int_Z.mult_int_big_int 2 x))
    (Big_int_Z.mult_int_big_int 2 (Big_int_Z.mult_int_big_int 2
    (Big_int_Z.mult_int_big_int 2 (Big_int_Z.mult_int_big_int 2
    Big_int_Z.unit_big_int))))) (Big_int_Z.mult_int_big_int 2
    ((fun x -> Big_int_Z.succ_big_int (Big_int_Z.mult_int_big_int 2 x))
    ((fun x -> Big_int_Z.succ_big_int (Big_int_Z.mult_int_big_int 2 x))
    ((fun x -> Big_int_Z.succ_big_int (Big_int_Z.mult_int_big_int 2 x))
    ((fun x -> Big_int_Z.succ_big_int (Big_int_Z.mult_int_big_int 2 x))
    ((fun x -> Big_int_Z.succ_big_int (Big_int_Z.mult_int_big_int 2 x))
    Big_int_Z.unit_big_int)))))) c

(** val is_ascii : Big_int_Z.big_int -> bool **)

let is_ascii c =
  N.leb c ((fun x -> Big_int_Z.succ_big_int (Big_int_Z.mult_int_big_int 2 x))
    ((fun x -> Big_int_Z.succ_big_int (Big_int_Z.mult_int_big_int 2 x))
    ((fun x -> Big_int_Z.succ_big_int (Big_int_Z.mult_int_big_int 2 x))
    ((fun x -> Big_int_Z.succ_big_int (Big_int_Z.mult_int_big_int 2 x))
    ((fun x -> Big_int_Z.succ_big_int (Big_int_Z.mult_int_big_int 2 x))
    ((fun x -> Big_int_Z.succ_big_int (Big_int_Z.mult_int_big_int 2 x))
    Big_int_Z.unit_big_int))))))

(** val digit_val : Big_int_Z.big_int -> Big_int_Z.big_int **)

let digit_val c =
  Z.of_N
    (if is_dec c
     then N.sub c (Big_int_Z.mult_int_big_int 2 (Big_int_Z.mult_int_big_int 2
            (Big_int_Z.mult_int_big_int 2 (Big_int_Z.mult_int_big_int 2
            ((fun x -> Big_int_Z.succ_big_int (Big_int_Z.mult_int_big_int 2 x))
            Big_int_Z.unit_big_int)))))
     else if in_range
               ((fun x -> Big_int_Z.succ_big_int (Big_int_Z.mult_int_big_int 2 x))
               (Big_int_Z.mult_int_big_int 2 (Big_int_Z.mult_int_big_int 2
               (Big_int_Z.mult_int_big_int 2 (Big_int_Z.mult_int_big_int 2
               ((fun x -> Big_int_Z.succ_big_int (Big_int_Z.mult_int_big_int 2 x))
               Big_int_Z.unit_big_int)))))) (Big_int_Z.mult_int_big_int 2
               ((fun x -> Big_int_Z.succ_big_int (Big_int_Z.mult_int_big_int 2 x))
               ((fun x -> Big_int_Z.succ_big_int (Big_int_Z.mult_int_big_int 2 x))
               (Big_int_Z.mult_int_big_int 2 (Big_int_Z.mult_int_big_int 2
               ((fun x -> Big_int_Z.succ_big_int (Big_int_Z.mult_int_big_int 2 x))
               Big_int_Z.unit_big_int)))))) c
          then N.sub c
                 ((fun x -> Big_int_Z.succ_big_int (Big_int_Z.mult_int_big_int 2 x))
                 ((fun x -> Big_int_Z.succ_big_int (Big_int_Z.mult_int_big_int 2 x))
                 ((fun x -> Big_int_Z.succ_big_int (Big_int_Z.mult_int_big_int 2 x))
                 (Big_int_Z.mult_int_big_int 2
                 ((fun x -> Big_int_Z.succ_big_int (Big_int_Z.mult_int_big_int 2 x))
                 (Big_int_Z.mult_int_big_int 2 Big_int_Z.unit_big_int))))))
          else N.sub c
                 ((fun x -> Big_int_Z.succ_big_int (Big_int_Z.mult_int_big_int 2 x))
                 ((fun x -> Big_int_Z.succ_big_int (Big_int_Z.mult_int_big_int 2 x))
                 ((fun x -> Big_int_Z.succ_big_int (Big_int_Z.mult_int_big_int 2 x))
                 (Big_int_Z.mult_int_big_int 2
                 ((fun x -> Big_int_Z.succ_big_int (Big_int_Z.mult_int_big_int 2 x))
                 Big_int_Z.unit_big_int))))))

(** val keyword_table : (Big_int_Z.big_int list * tkind) list **)

let keyword_table =
  (((Big_int_Z.mult_int_big_int 2
    ((fun x -> Big_int_Z.succ_big_int (Big_int_Z.mult_int_big_int 2 x))
    ((fun x -> Big_int_Z.succ_big_int (Big_int_Z.mult_int_big_int 2 x))
    (Big_int_Z.mult_int_big_int 2 (Big_int_Z.mult_int_big_int 2
    ((fun x -> Big_int_Z.succ_big_int (Big_int_Z.mult_int_big_int 2 x))
    Big_int_Z.unit_big_int)))))) :: ((Big_int_Z.mult_int_big_int 2
    ((fun x -> Big_int_Z.succ_big_int (Big_int_Z.mult_int_big_int 2 x))
    ((fun x -> Big_int_Z.succ_big_int (Big_int_Z.mult_int_big_int 2 x))
    ((fun x -> Big_int_Z.succ_big_int (Big_int_Z.mult_int_big_int 2 x))
    (Big_int_Z.mult_int_big_int 2
    ((fun x -> Big_int_Z.succ_big_int (Big_int_Z.mult_int_big_int 2 x))
    Big_int_Z.unit_big_int)))))) :: [])),
    KFn) :: ((((Big_int_Z.mult_int_big_int 2
    ((fun x -> Big_int_Z.succ_big_int (Big_int_Z.mult_int_big_int 2 x))
    ((fun x -> Big_int_Z.succ_big_int (Big_int_Z.mult_int_big_int 2 x))
    (Big_int_Z.mult_int_big_int 2
    ((fun x -> Big_int_Z.succ_big_int (Big_int_Z.mult_int_big_int 2 x))
    ((fun x -> Big_int_Z.succ_big_int (Big_int_Z.mult_int_big_int 2 x))
    Big_int_Z.unit_big_int)))))) :: (((fun x -> Big_int_Z.succ_big_int (Big_int_Z.mult_int_big_int 2 x))
    (Big_int_Z.mult_int_big_int 2 (Big_int_Z.mult_int_big_int 2
    (Big_int_Z.mult_int_big_int 2 (Big_int_Z.mult_int_big_int 2
    ((fun x -> Big_int_Z.succ_big_int (Big_int_Z.mult_int_big_int 2 x))
    Big_int_Z.unit_big_int)))))) :: ((Big_int_Z.mult_int_big_int 2
    ((fun x -> Big_int_Z.succ_big_int (Big_int_Z.mult_int_big_int 2 x))
    (Big_int_Z.mult_int_big_int 2 (Big_int_Z.mult_int_big_int 2
    ((fun x -> Big_int_Z.succ_big_int (Big_int_Z.mult_int_big_int 2 x))
    ((fun x -> Big_int_Z.succ_big_int (Big_int_Z.mult_int_big_int 2 x))
    Big_int_Z.unit_big_int)))))) :: []))),
    KVar) :: (((((fun x -> Big_int_Z.succ_big_int (Big_int_Z.mult_int_big_int 2 x))
    ((fun x -> Big_int_Z.succ_big_int (Big_int_Z.mult_int_big_int 2 x))
    (Big_int_Z.mult_int_big_int 2 (Big_int_Z.mult_int_big_int 2
    (Big_int_Z.mult_int_big_int 2
    ((fun x -> Big_int_Z.succ_big_int (Big_int_Z.mult_int_big_int 2 x))
    Big_int_Z.unit_big_int)))))) :: (((fun x -> Big_int_Z.succ_big_int (Big_int_Z.mult_int_big_int 2 x))
    ((fun x -> Big_int_Z.succ_big_int (Big_int_Z.mult_int_big_int 2 x))
    ((fun x -> Big_int_Z.succ_big_int (Big_int_Z.mult_int_big_int 2 x))
    ((fun x -> Big_int_Z.succ_big_int (Big_int_Z.mult_int_big_int 2 x))
    (Big_int_Z.mult_int_big_int 2
    ((fun x -> Big_int_Z.succ_big_int (Big_int_Z.mult_int_big_int 2 x))
    Big_int_Z.unit_big_int)))))) :: ((Big_int_Z.mult_int_big_int 2
    ((fun x -> Big_int_Z.succ_big_int (Big_int_Z.mult_int_big_int 2 x))
    ((fun x -> Big_int_Z.succ_big_int (Big_int_Z.mult_int_big_int 2 x))
    ((fun x -> Big_int_Z.succ_big_int (Big_int_Z.mult_int_big_int 2 x))
    (Big_int_Z.mult_int_big_int 2
    ((fun x -> Big_int_Z.succ_big_int (Big_int_Z.mult_int_big_int 2 x))
    Big_int_Z.unit_big_int)))))) :: (((fun x -> Big_int_Z.succ_big_int (Big_int_Z.mult_int_big_int 2 x))
    ((fun x -> Big_int_Z.succ_big_int (Big_int_Z.mult_int_big_int 2 x))
    (Big_int_Z.mult_int_big_int 2 (Big_int_Z.mult_int_big_int 2
    ((fun x -> Big_int_Z.succ_big_int (Big_int_Z.mult_int_big_int 2 x))
    ((fun x -> Big_int_Z.succ_big_int (Big_int_Z.mult_int_big_int 2 x))
    Big_int_Z.unit_big_int)))))) :: ((Big_int_Z.mult_int_big_int 2
    (Big_int_Z.mult_int_big_int 2
    ((fun x -> Big_int_Z.succ_big_int (Big_int_Z.mult_int_big_int 2 x))
    (Big_int_Z.mult_int_big_int 2
    ((fun x -> Big_int_Z.succ_big_int (Big_int_Z.mult_int_big_int 2 x))
    ((fun x -> Big_int_Z.succ_big_int (Big_int_Z.mult_int_big_int 2 x))
    Big_int_Z.unit_big_int)))))) :: []))))),
    KConst) :: (((((fun x -> Big_int_Z.succ_big_int (Big_int_Z.mult_int_big_int 2 x))
    (Big_int_Z.mult_int_big_int 2 (Big_int_Z.mult_int_big_int 2
    ((fun x -> Big_int_Z.succ_big_int (Big_int_Z.mult_int_big_int 2 x))
    (Big_int_Z.mult_int_big_int 2
    ((fun x -> Big_int_Z.succ_big_int (Big_int_Z.mult_int_big_int 2 x))
    Big_int_Z.unit_big_int)))))) :: ((Big_int_Z.mult_int_big_int 2
    ((fun x -> Big_int_Z.succ_big_int (Big_int_Z.mult_int_big_int 2 x))
    ((fun x -> Big_int_Z.succ_big_int (Big_int_Z.mult_int_big_int 2 x))
    (Big_int_Z.mult_int_big_int 2 (Big_int_Z.mult_int_big_int 2
    ((fun x -> Big_int_Z.succ_big_int (Big_int_Z.mult_int_big_int 2 x))
    Big_int_Z.unit_big_int)))))) :: [])),
    KIf) :: (((((fun x -> Big_int_Z.succ_big_int (Big_int_Z.mult_int_big_int 2 x))
    ((fun x -> Big_int_Z.succ_big_int (Big_int_Z.mult_int_big_int 2 x))
    ((fun x -> Big_int_Z.succ_big_int (Big_int_Z.mult_int_big_int 2 x))
    (Big_int_Z.mult_int_big_int 2 (Big_int_Z.mult_int_big_int 2
    ((fun x -> Big_int_Z.succ_big_int (Big_int_Z.mult_int_big_int 2 x))
    Big_int_Z.unit_big_int)))))) :: (((fun x -> Big_int_Z.succ_big_int (Big_int_Z.mult_int_big_int 2 x))
    ((fun x -> Big_int_Z.succ_big_int (Big_int_Z.mult_int_big_int 2 x))
    ((fun x -> Big_int_Z.succ_big_int (Big_int_Z.mult_int_big_int 2 x))
    ((fun x -> Big_int_Z.succ_big_int (Big_int_Z.mult_int_big_int 2 x))
    (Big_int_Z.mult_int_big_int 2
    ((fun x -> Big_int_Z.succ_big_int (Big_int_Z.mult_int_big_int 2 x))
    Big_int_Z.unit_big_int)))))) :: ((Big_int_Z.mult_int_big_int 2
    (Big_int_Z.mult_int_big_int 2
    ((fun x -> Big_int_Z.succ_big_int (Big_int_Z.mult_int_big_int 2 x))
    (Big_int_Z.mult_int_big_int 2
    ((fun x -> Big_int_Z.succ_big_int (Big_int_Z.mult_int_big_int 2 x))
    ((fun x -> Big_int_Z.succ_big_int (Big_int_Z.mult_int_big_int 2 x))
    Big_int_Z.unit_big_int)))))) :: (((fun x -> Big_int_Z.succ_big_int (Big_int_Z.mult_int_big_int 2 x))
    ((fun x -> Big_int_Z.succ_big_int (Big_int_Z.mult_int_big_int 2 x))
    ((fun x -> Big_int_Z.succ_big_int (Big_int_Z.mult_int_big_int 2 x))
    ((fun x -> Big_int_Z.succ_big_int (Big_int_Z.mult_int_big_int 2 x))
    (Big_int_Z.mult_int_big_int 2
    ((fun x -> Big_int_Z.succ_big_int (Big_int_Z.mult_int_big_int 2 x))
    Big_int_Z.unit_big_int)))))) :: [])))),
    KGoto) :: ((((Big_int_Z.mult_int_big_int 2 (Big_int_Z.mult_int_big_int 2
    ((fun x -> Big_int_Z.succ_big_int (Big_int_Z.mult_int_big_int 2 x))
    ((fun x -> Big_int_Z.succ_big_int (Big_int_Z.mult_int_big_int 2 x))
    (Big_int_Z.mult_int_big_int 2
    ((fun x -> Big_int_Z.succ_big_int (Big_int_Z.mult_int_big_int 2 x))
    Big_int_Z.unit_big_int)))))) :: (((fun x -> Big_int_Z.succ_big_int (Big_int_Z.mult_int_big_int 2 x))
    ((fun x -> Big_int_Z.succ_big_int (Big_int_Z.mult_int_big_int 2 x))
    ((fun x -> Big_int_Z.succ_big_int (Big_int_Z.mult_int_big_int 2 x))
    ((fun x -> Big_int_Z.succ_big_int (Big_int_Z.mult_int_big_int 2 x))
    (Big_int_Z.mult_int_big_int 2
    ((fun x -> Big_int_Z.succ_big_int (Big_int_Z.mult_int_big_int 2 x))
    Big_int_Z.unit_big_int)))))) :: (((fun x -> Big_int_Z.succ_big_int (Big_int_Z.mult_int_big_int 2 x))
    ((fun x -> Big_int_Z.succ_big_int (Big_int_Z.mult_int_big_int 2 x))
    ((fun x -> Big_int_Z.succ_big_int (Big_int_Z.mult_int_big_int 2 x))
    ((fun x -> Big_int_Z.succ_big_int (Big_int_Z.mult_int_big_int 2 x))
    (Big_int_Z.mult_int_big_int 2
    ((fun x -> Big_int_Z.succ_big_int (Big_int_Z.mult_int_big_int 2 x))
    Big_int_Z.unit_big_int)))))) :: ((Big_int_Z.mult_int_big_int 2
    (Big_int_Z.mult_int_big_int 2 (Big_int_Z.mult_int_big_int 2
    (Big_int_Z.mult_int_big_int 2
    ((fun x -> Big_int_Z.succ_big_int (Big_int_Z.mult_int_big_int 2 x))
    ((fun x -> Big_int_Z.succ_big_int (Big_int_Z.mult_int_big_int 2 x))
    Big_int_Z.unit_big_int)))))) :: [])))),
    KLoop) :: (((((fun x -> Big_int_Z.succ_big_int (Big_int_Z.mult_int_big_int 2 x))
    (Big_int_Z.mult_int_big_int 2
    ((fun x -> Big_int_Z.succ_big_int (Big_int_Z.mult_int_big_int 2 x))
    (Big_int_Z.mult_int_big_int 2 (Big_int_Z.mult_int_big_int 2
    ((fun x -> Big_int_Z.succ_big_int (Big_int_Z.mult_int_big_int 2 x))
    Big_int_Z.unit_big_int)))))) :: ((Big_int_Z.mult_int_big_int 2
    (Big_int_Z.mult_int_big_int 2
    ((fun x -> Big_int_Z.succ_big_int (Big_int_Z.mult_int_big_int 2 x))
    ((fun x -> Big_int_Z.succ_big_int (Big_int_Z.mult_int_big_int 2 x))
    (Big_int_Z.mult_int_big_int 2
    ((fun x -> Big_int_Z.succ_big_int (Big_int_Z.mult_int_big_int 2 x))
    Big_int_Z.unit_big_int)))))) :: (((fun x -> Big_int_Z.succ_big_int (Big_int_Z.mult_int_big_int 2 x))
    ((fun x -> Big_int_Z.succ_big_int (Big_int_Z.mult_int_big_int 2 x))
    (Big_int_Z.mult_int_big_int 2 (Big_int_Z.mult_int_big_int 2
    ((fun x -> Big_int_Z.succ_big_int (Big_int_Z.mult_int_big_int 2 x))
    ((fun x -> Big_int_Z.succ_big_int (Big_int_Z.mult_int_big_int 2 x))
    Big_int_Z.unit_big_int)))))) :: (((fun x -> Big_int_Z.succ_big_int (Big_int_Z.mult_int_big_int 2 x))
    (Big_int_Z.mult_int_big_int 2
    ((fun x -> Big_int_Z.succ_big_int (Big_int_Z.mult_int_big_int 2 x))
    (Big_int_Z.mult_int_big_int 2 (Big_int_Z.mult_int_big_int 2
    ((fun x -> Big_int_Z.succ_big_int (Big_int_Z.mult_int_big_int 2 x))
    Big_int_Z.unit_big_int)))))) :: [])))),
    KElse) :: (((((fun x -> Big_int_Z.succ_big_int (Big_int_Z.mult_int_big_int 2 x))
    ((fun x -> Big_int_Z.succ_big_int (Big_int_Z.mult_int_big_int 2 x))
    (Big_int_Z.mult_int_big_int 2 (Big_int_Z.mult_int_big_int 2
    (Big_int_Z.mult_int_big_int 2
    ((fun x -> Big_int_Z.succ_big_int (Big_int_Z.mult_int_big_int 2 x))
    Big_int_Z.unit_big_int)))))) :: (((fun x -> Big_int_Z.succ_big_int (Big_int_Z.mult_int_big_int 2 x))
    (Big_int_Z.mult_int_big_int 2 (Big_int_Z.mult_int_big_int 2
    (Big_int_Z.mult_int_big_int 2 (Big_int_Z.mult_int_big_int 2
    ((fun x -> Big_int_Z.succ_big_int (Big_int_Z.mult_int_big_int 2 x))
    Big_int_Z.unit_big_int)))))) :: (((fun x -> Big_int_Z.succ_big_int (Big_int_Z.mult_int_big_int 2 x))
    ((fun x -> Big_int_Z.succ_big_int (Big_int_Z.mult_int_big_int 2 x))
    (Big_int_Z.mult_int_big_int 2 (Big_int_Z.mult_int_big_int 2
    ((fun x -> Big_int_Z.succ_big_int (Big_int_Z.mult_int_big_int 2 x))
    ((fun x -> Big_int_Z.succ_big_int (Big_int_Z.mult_int_big_int 2 x))
    Big_int_Z.unit_big_int)))))) :: ((Big_int_Z.mult_int_big_int 2
    (Big_int_Z.mult_int_big_int 2
    ((fun x -> Big_int_Z.succ_big_int (Big_int_Z.mult_int_big_int 2 x))
    (Big_int_Z.mult_int_big_int 2
    ((fun x -> Big_int_Z.succ_big_int (Big_int_Z.mult_int_big_int 2 x))
    ((fun x -> Big_int_Z.succ_big_int (Big_int_Z.mult_int_big_int 2 x))
    Big_int_Z.unit_big_int)))))) :: [])))),
    KCast) :: (((((fun x -> Big_int_Z.succ_big_int (Big_int_Z.mult_int_big_int 2 x))
    (Big_int_Z.mult_int_big_int 2 (Big_int_Z.mult_int_big_int 2
    (Big_int_Z.mult_int_big_int 2 (Big_int_Z.mult_int_big_int 2
    ((fun x -> Big_int_Z.succ_big_int (Big_int_Z.mult_int_big_int 2 x))
    Big_int_Z.unit_big_int)))))) :: (((fun x -> Big_int_Z.succ_big_int (Big_int_Z.mult_int_big_int 2 x))
    ((fun x -> Big_int_Z.succ_big_int (Big_int_Z.mult_int_big_int 2 x))
    (Big_int_Z.mult_int_big_int 2 (Big_int_Z.mult_int_big_int 2
    ((fun x -> Big_int_Z.succ_big_int (Big_int_Z.mult_int_big_int 2 x))
    ((fun x -> Big_int_Z.succ_big_int (Big_int_Z.mult_int_big_int 2 x))
    Big_int_Z.unit_big_int)))))) :: [])),
    KAs) :: (((((fun x -> Big_int_Z.succ_big_int (Big_int_Z.mult_int_big_int 2 x))
    (Big_int_Z.mult_int_big_int 2 (Big_int_Z.mult_int_big_int 2
    ((fun x -> Big_int_Z.succ_big_int (Big_int_Z.mult_int_big_int 2 x))
    (Big_int_Z.mult_int_big_int 2
    ((fun x -> Big_int_Z.succ_big_int (Big_int_Z.mult_int_big_int 2 x))
    Big_int_Z.unit_big_int)))))) :: (((fun x -> Big_int_Z.succ_big_int (Big_int_Z.mult_int_big_int 2 x))
    (Big_int_Z.mult_int_big_int 2
    ((fun x -> Big_int_Z.succ_big_int (Big_int_Z.mult_int_big_int 2 x))
    ((fun x -> Big_int_Z.succ_big_int (Big_int_Z.mult_int_big_int 2 x))
    (Big_int_Z.mult_int_big_int 2
    ((fun x -> Big_int_Z.succ_big_int (Big_int_Z.mult_int_big_int 2 x))
    Big_int_Z.unit_big_int)))))) :: ((Big_int_Z.mult_int_big_int 2
    (Big_int_Z.mult_int_big_int 2 (Big_int_Z.mult_int_big_int 2
    (Big_int_Z.mult_int_big_int 2
    ((fun x -> Big_int_Z.succ_big_int (Big_int_Z.mult_int_big_int 2 x))
    ((fun x -> Big_int_Z.succ_big_int (Big_int_Z.mult_int_big_int 2 x))
    Big_int_Z.unit_big_int)))))) :: (((fun x -> Big_int_Z.succ_big_int (Big_int_Z.mult_int_big_int 2 x))
    ((fun x -> Big_int_Z.succ_big_int (Big_int_Z.mult_int_big_int 2 x))
    ((fun x -> Big_int_Z.succ_big_int (Big_int_Z.mult_int_big_int 2 x))
    ((fun x -> Big_int_Z.succ_big_int (Big_int_Z.mult_int_big_int 2 x))
    (Big_int_Z.mult_int_big_int 2
    ((fun x -> Big_int_Z.succ_big_int (Big_int_Z.mult_int_big_int 2 x))
    Big_int_Z.unit_big_int)))))) :: ((Big_int_Z.mult_int_big_int 2
    ((fun x -> Big_int_Z.succ_big_int (Big_int_Z.mult_int_big_int 2 x))
    (Big_int_Z.mult_int_big_int 2 (Big_int_Z.mult_int_big_int 2
    ((fun x -> Big_int_Z.succ_big_int (Big_int_Z.mult_int_big_int 2 x))
    ((fun x -> Big_int_Z.succ_big_int (Big_int_Z.mult_int_big_int 2 x))
    Big_int_Z.unit_big_int)))))) :: ((Big_int_Z.mult_int_big_int 2
    (Big_int_Z.mult_int_big_int 2
    ((fun x -> Big_int_Z.succ_big_int (Big_int_Z.mult_int_big_int 2 x))
    (Big_int_Z.mult_int_big_int 2
    ((fun x -> Big_int_Z.succ_big_int (Big_int_Z.mult_int_big_int 2 x))
    ((fun x -> Big_int_Z.succ_big_int (Big_int_Z.mult_int_big_int 2 x))
    Big_int_Z.unit_big_int)))))) :: [])))))),
    KImport) :: ((((Big_int_Z.mult_int_big_int 2
    (Big_int_Z.mult_int_big_int 2 (Big_int_Z.mult_int_big_int 2
    (Big_int_Z.mult_int_big_int 2
    ((fun x -> Big_int_Z.succ_big_int (Big_int_Z.mult_int_big_int 2 x))
    ((fun x -> Big_int_Z.succ_big_int (Big_int_Z.mult_int_big_int 2 x))
    Big_int_Z.unit_big_int)))))) :: (((fun x -> Big_int_Z.succ_big_int (Big_int_Z.mult_int_big_int 2 x))
    (Big_int_Z.mult_int_big_int 2
    ((fun x -> Big_int_Z.succ_big_int (Big_int_Z.mult_int_big_int 2 x))
    (Big_int_Z.mult_int_big_int 2
    ((fun x -> Big_int_Z.succ_big_int (Big_int_Z.mult_int_big_int 2 x))
    ((fun x -> Big_int_Z.succ_big_int (Big_int_Z.mult_int_big_int 2 x))
    Big_int_Z.unit_big_int)))))) :: ((Big_int_Z.mult_int_big_int 2
    ((fun x -> Big_int_Z.succ_big_int (Big_int_Z.mult_int_big_int 2 x))
    (Big_int_Z.mult_int_big_int 2 (Big_int_Z.mult_int_big_int 2
    (Big_int_Z.mult_int_big_int 2
    ((fun x -> Big_int_Z.succ_big_int (Big_int_Z.mult_int_big_int 2 x))
    Big_int_Z.unit_big_int)))))) :: []))),
    KPub) :: (((((fun x -> Big_int_Z.succ_big_int (Big_int_Z.mult_int_big_int 2 x))
    (Big_int_Z.mult_int_big_int 2
    ((fun x -> Big_int_Z.succ_big_int (Big_int_Z.mult_int_big_int 2 x))
    (Big_int_Z.mult_int_big_int 2 (Big_int_Z.mult_int_big_int 2
    ((fun x -> Big_int_Z.succ_big_int (Big_int_Z.mult_int_big_int 2 x))
    Big_int_Z.unit_big_int)))))) :: ((Big_int_Z.mult_int_big_int 2
    (Big_int_Z.mult_int_big_int 2 (Big_int_Z.mult_int_big_int 2
    ((fun x -> Big_int_Z.succ_big_int (Big_int_Z.mult_int_big_int 2 x))
    ((fun x -> Big_int_Z.succ_big_int (Big_int_Z.mult_int_big_int 2 x))
    ((fun x -> Big_int_Z.succ_big_int (Big_int_Z.mult_int_big_int 2 x))
    Big_int_Z.unit_big_int)))))) :: ((Big_int_Z.mult_int_big_int 2
    (Big_int_Z.mult_int_big_int 2
    ((fun x -> Big_int_Z.succ_big_int (Big_int_Z.mult_int_big_int 2 x))
    (Big_int_Z.mult_int_big_int 2
    ((fun x -> Big_int_Z.succ_big_int (Big_int_Z.mult_int_big_int 2 x))
    ((fun x -> Big_int_Z.succ_big_int (Big_int_Z.mult_int_big_int 2 x))
    Big_int_Z.unit_big_int)))))) :: (((fun x -> Big_int_Z.succ_big_int (Big_int_Z.mult_int_big_int 2 x))
    (Big_int_Z.mult_int_big_int 2
    ((fun x -> Big_int_Z.succ_big_int (Big_int_Z.mult_int_big_int 2 x))
    (Big_int_Z.mult_int_big_int 2 (Big_int_Z.mult_int_big_int 2
    ((fun x -> Big_int_Z.succ_big_int (Big_int_Z.mult_int_big_int 2 x))
    Big_int_Z.unit_big_int)))))) :: ((Big_int_Z.mult_int_big_int 2
    ((fun x -> Big_int_Z.succ_big_int (Big_int_Z.mult_int_big_int 2 x))
    (Big_int_Z.mult_int_big_int 2 (Big_int_Z.mult_int_big_int 2
    ((fun x -> Big_int_Z.succ_big_int (Big_int_Z.mult_int_big_int 2 x))
    ((fun x -> Big_int_Z.succ_big_int (Big_int_Z.mult_int_big_int 2 x))
    Big_int_Z.unit_big_int)))))) :: ((Big_int_Z.mult_int_big_int 2
    ((fun x -> Big_int_Z.succ_big_int (Big_int_Z.mult_int_big_int 2 x))
    ((fun x -> Big_int_Z.succ_big_int (Big_int_Z.mult_int_big_int 2 x))
    ((fun x -> Big_int_Z.succ_big_int (Big_int_Z.mult_int_big_int 2 x))
    (Big_int_Z.mult_int_big_int 2
    ((fun x -> Big_int_Z.succ_big_int (Big_int_Z.mult_int_big_int 2 x))
    Big_int_Z.unit_big_int)))))) :: [])))))),
    KExtern) :: (((((fun x -> Big_int_Z.succ_big_int (Big_int_Z.mult_int_big_int 2 x))
    ((fun x -> Big_int_Z.succ_big_int (Big_int_Z.mult_int_big_int 2 x))
    (Big_int_Z.mult_int_big_int 2 (Big_int_Z.mult_int_big_int 2
    ((fun x -> Big_int_Z.succ_big_int (Big_int_Z.mult_int_big_int 2 x))
    ((fun x -> Big_int_Z.succ_big_int (Big_int_Z.mult_int_big_int 2 x))
    Big_int_Z.unit_big_int)))))) :: ((Big_int_Z.mult_int_big_int 2
    (Big_int_Z.mult_int_big_int 2
    ((fun x -> Big_int_Z.succ_big_int (Big_int_Z.mult_int_big_int 2 x))
    (Big_int_Z.mult_int_big_int 2
    ((fun x -> Big_int_Z.succ_big_int (Big_int_Z.mult_int_big_int 2 x))
    ((fun x -> Big_int_Z.succ_big_int (Big_int_Z.mult_int_big_int 2 x))
    Big_int_Z.unit_big_int)))))) :: ((Big_int_Z.mult_int_big_int 2
    ((fun x -> Big_int_Z.succ_big_int (Big_int_Z.mult_int_big_int 2 x))
    (Big_int_Z.mult_int_big_int 2 (Big_int_Z.mult_int_big_int 2
    ((fun x -> Big_int_Z.succ_big_int (Big_int_Z.mult_int_big_int 2 x))
    ((fun x -> Big_int_Z.succ_big_int (Big_int_Z.mult_int_big_int 2 x))
    Big_int_Z.unit_big_int)))))) :: (((fun x -> Big_int_Z.succ_big_int (Big_int_Z.mult_int_big_int 2 x))
    (Big_int_Z.mult_int_big_int 2
    ((fun x -> Big_int_Z.succ_big_int (Big_int_Z.mult_int_big_int 2 x))
    (Big_int_Z.mult_int_big_int 2
    ((fun x -> Big_int_Z.succ_big_int (Big_int_Z.mult_int_big_int 2 x))
    ((fun x -> Big_int_Z.succ_big_int (Big_int_Z.mult_int_big_int 2 x))
    Big_int_Z.unit_big_int)))))) :: (((fun x -> Big_int_Z.succ_big_int (Big_int_Z.mult_int_big_int 2 x))
    ((fun x -> Big_int_Z.succ_big_int (Big_int_Z.mult_int_big_int 2 x))
    (Big_int_Z.mult_int_big_int 2 (Big_int_Z.mult_int_big_int 2
    (Big_int_Z.mult_int_big_int 2
    ((fun x -> Big_int_Z.succ_big_int (Big_int_Z.mult_int_big_int 2 x))
    Big_int_Z.unit_big_int)))))) :: ((Big_int_Z.mult_int_big_int 2
    (Big_int_Z.mult_int_big_int 2
    ((fun x -> Big_int_Z.succ_big_int (Big_int_Z.mult_int_big_int 2 x))
    (Big_int_Z.mult_int_big_int 2
    ((fun x -> Big_int_Z.succ_big_int (Big_int_Z.mult_int_big_int 2 x))
    ((fun x -> Big_int_Z.succ_big_int (Big_int_Z.mult_int_big_int 2 x))
    Big_int_Z.unit_big_int)))))) :: [])))))),
    KStruct) :: (((((fun x -> Big_int_Z.succ_big_int (Big_int_Z.mult_int_big_int 2 x))
    ((fun x -> Big_int_Z.succ_big_int (Big_int_Z.mult_int_big_int 2 x))
    ((fun x -> Big_int_Z.succ_big_int (Big_int_Z.mult_int_big_int 2 x))
    (Big_int_Z.mult_int_big_int 2
    ((fun x -> Big_int_Z.succ_big_int (Big_int_Z.mult_int_big_int 2 x))
    ((fun x -> Big_int_Z.succ_big_int (Big_int_Z.mult_int_big_int 2 x))
    Big_int_Z.unit_big_int)))))) :: (((fun x -> Big_int_Z.succ_big_int (Big_int_Z.mult_int_big_int 2 x))
    ((fun x -> Big_int_Z.succ_big_int (Big_int_Z.mult_int_big_int 2 x))
    ((fun x -> Big_int_Z.succ_big_int (Big_int_Z.mult_int_big_int 2 x))
    ((fun x -> Big_int_Z.succ_big_int (Big_int_Z.mult_int_big_int 2 x))
    (Big_int_Z.mult_int_big_int 2
    ((fun x -> Big_int_Z.succ_big_int (Big_int_Z.mult_int_big_int 2 x))
    Big_int_Z.unit_big_int)))))) :: ((Big_int_Z.mult_int_big_int 2
    ((fun x -> Big_int_Z.succ_big_int (Big_int_Z.mult_int_big_int 2 x))
    (Big_int_Z.mult_int_big_int 2 (Big_int_Z.mult_int_big_int 2
    ((fun x -> Big_int_Z.succ_big_int (Big_int_Z.mult_int_big_int 2 x))
    ((fun x -> Big_int_Z.succ_big_int (Big_int_Z.mult_int_big_int 2 x))
    Big_int_Z.unit_big_int)))))) :: ((Big_int_Z.mult_int_big_int 2
    (Big_int_Z.mult_int_big_int 2
    ((fun x -> Big_int_Z.succ_big_int (Big_int_Z.mult_int_big_int 2 x))
    (Big_int_Z.mult_int_big_int 2 (Big_int_Z.mult_int_big_int 2
    ((fun x -> Big_int_Z.succ_big_int (Big_int_Z.mult_int_big_int 2 x))
    Big_int_Z.unit_big_int)))))) :: ((Big_int_Z.mult_int_big_int 2
    (Big_int_Z.mult_int_big_int 2 (Big_int_Z.mult_int_big_int 2
    ((fun x -> Big_int_Z.succ_big_int (Big_int_Z.mult_int_big_int 2 x))
    ((fun x -> Big_int_Z.succ_big_int (Big_int_Z.mult_int_big_int 2 x))
    Big_int_Z.unit_big_int))))) :: []))))),
    KWord8) :: (((((fun x -> Big_int_Z.succ_big_int (Big_int_Z.mult_int_big_int 2 x))
    ((fun x -> Big_int_Z.succ_big_int (Big_int_Z.mult_int_big_int 2 x))
    ((fun x -> Big_int_Z.succ_big_int (Big_int_Z.mult_int_big_int 2 x))
    (Big_int_Z.mult_int_big_int 2
    ((fun x -> Big_int_Z.succ_big_int (Big_int_Z.mult_int_big_int 2 x))
    ((fun x -> Big_int_Z.succ_big_int (Big_int_Z.mult_int_big_int 2 x))
    Big_int_Z.unit_big_int)))))) :: (((fun x -> Big_int_Z.succ_big_int (Big_int_Z.mult_int_big_int 2 x))
    ((fun x -> Big_int_Z.succ_big_int (Big_int_Z.mult_int_big_int 2 x))
    ((fun x -> Big_int_Z.succ_big_int (Big_int_Z.mult_int_big_int 2 x))
    ((fun x -> Big_int_Z.succ_big_int (Big_int_Z.mult_int_big_int 2 x))
    (Big_int_Z.mult_int_big_int 2
    ((fun x -> Big_int_Z.succ_big_int (Big_int_Z.mult_int_big_int 2 x))
    Big_int_Z.unit_big_int)))))) :: ((Big_int_Z.mult_int_big_int 2
    ((fun x -> Big_int_Z.succ_big_int (Big_int_Z.mult_int_big_int 2 x))
    (Big_int_Z.mult_int_big_int 2 (Big_int_Z.mult_int_big_int 2
    ((fun x -> Big_int_Z.succ_big_int (Big_int_Z.mult_int_big_int 2 x))
    ((fun x -> Big_int_Z.succ_big_int (Big_int_Z.mult_int_big_int 2 x))
    Big_int_Z.unit_big_int)))))) :: ((Big_int_Z.mult_int_big_int 2
    (Big_int_Z.mult_int_big_int 2
    ((fun x -> Big_int_Z.succ_big_int (Big_int_Z.mult_int_big_int 2 x))
    (Big_int_Z.mult_int_big_int 2 (Big_int_Z.mult_int_big_int 2
    ((fun x -> Big_int_Z.succ_big_int (Big_int_Z.mult_int_big_int 2 x))
    Big_int_Z.unit_big_int)))))) :: (((fun x -> Big_int_Z.succ_big_int (Big_int_Z.mult_int_big_int 2 x))
    (Big_int_Z.mult_int_big_int 2 (Big_int_Z.mult_int_big_int 2
    (Big_int_Z.mult_int_big_int 2
    ((fun x -> Big_int_Z.succ_big_int (Big_int_Z.mult_int_big_int 2 x))
    Big_int_Z.unit_big_int))))) :: ((Big_int_Z.mult_int_big_int 2
    ((fun x -> Big_int_Z.succ_big_int (Big_int_Z.mult_int_big_int 2 x))
    ((fun x -> Big_int_Z.succ_big_int (Big_int_Z.mult_int_big_int 2 x))
    (Big_int_Z.mult_int_big_int 2
    ((fun x -> Big_int_Z.succ_big_int (Big_int_Z.mult_int_big_int 2 x))
    Big_int_Z.unit_big_int))))) :: [])))))),
    KWord16) :: (((((fun x -> Big_int_Z.succ_big_int (Big_int_Z.mult_int_big_int 2 x))
    ((fun x -> Big_int_Z.succ_big_int (Big_int_Z.mult_int_big_int 2 x))
    ((fun x -> Big_int_Z.succ_big_int (Big_int_Z.mult_int_big_int 2 x))
    (Big_int_Z.mult_int_big_int 2
    ((fun x -> Big_int_Z.succ_big_int (Big_int_Z.mult_int_big_int 2 x))
    ((fun x -> Big_int_Z.succ_big_int (Big_int_Z.mult_int_big_int 2 x))
    Big_int_Z.unit_big_int)))))) :: (((fun x -> Big_int_Z.succ_big_int (Big_int_Z.mult_int_big_int 2 x))
    ((fun x -> Big_int_Z.succ_big_int (Big_int_Z.mult_int_big_int 2 x))
    ((fun x -> Big_int_Z.succ_big_int (Big_int_Z.mult_int_big_int 2 x))
    ((fun x -> Big_int_Z.succ_big_int (Big_int_Z.mult_int_big_int 2 x))
    (Big_int_Z.mult_int_big_int 2
    ((fun x -> Big_int_Z.succ_big_int (Big_int_Z.mult_int_big_int 2 x))
    Big_int_Z.unit_big_int)))))) :: ((Big_int_Z.mult_int_big_int 2
    ((fun x -> Big_int_Z.succ_big_int (Big_int_Z.mult_int_big_int 2 x))
    (Big_int_Z.mult_int_big_int 2 (Big_int_Z.mult_int_big_int 2
    ((fun x -> Big_int_Z.succ_big_int (Big_int_Z.mult_int_big_int 2 x))
    ((fun x -> Big_int_Z.succ_big_int (Big_int_Z.mult_int_big_int 2 x))
    Big_int_Z.unit_big_int)))))) :: ((Big_int_Z.mult_int_big_int 2
    (Big_int_Z.mult_int_big_int 2
    ((fun x -> Big_int_Z.succ_big_int (Big_int_Z.mult_int_big_int 2 x))
    (Big_int_Z.mult_int_big_int 2 (Big_int_Z.mult_int_big_int 2
    ((fun x -> Big_int_Z.succ_big_int (Big_int_Z.mult_int_big_int 2 x))
    Big_int_Z.unit_big_int)))))) :: (((fun x -> Big_int_Z.succ_big_int (Big_int_Z.mult_int_big_int 2 x))
    ((fun x -> Big_int_Z.succ_big_int (Big_int_Z.mult_int_big_int 2 x))
    (Big_int_Z.mult_int_big_int 2 (Big_int_Z.mult_int_big_int 2
    ((fun x -> Big_int_Z.succ_big_int (Big_int_Z.mult_int_big_int 2 x))
    Big_int_Z.unit_big_int))))) :: ((Big_int_Z.mult_int_big_int 2
    ((fun x -> Big_int_Z.succ_big_int (Big_int_Z.mult_int_big_int 2 x))
    (Big_int_Z.mult_int_big_int 2 (Big_int_Z.mult_int_big_int 2
    ((fun x -> Big_int_Z.succ_big_int (Big_int_Z.mult_int_big_int 2 x))
    Big_int_Z.unit_big_int))))) :: [])))))),
    KWord32) :: (((((fun x -> Big_int_Z.succ_big_int (Big_int_Z.mult_int_big_int 2 x))
    ((fun x -> Big_int_Z.succ_big_int (Big_int_Z.mult_int_big_int 2 x))
    ((fun x -> Big_int_Z.succ_big_int (Big_int_Z.mult_int_big_int 2 x))
    (Big_int_Z.mult_int_big_int 2
    ((fun x -> Big_int_Z.succ_big_int (Big_int_Z.mult_int_big_int 2 x))
    ((fun x -> Big_int_Z.succ_big_int (Big_int_Z.mult_int_big_int 2 x))
    Big_int_Z.unit_big_int)))))) :: (((fun x -> Big_int_Z.succ_big_int (Big_int_Z.mult_int_big_int 2 x))
    ((fun x -> Big_int_Z.succ_big_int (Big_int_Z.mult_int_big_int 2 x))
    ((fun x -> Big_int_Z.succ_big_int (Big_int_Z.mult_int_big_int 2 x))
    ((fun x -> Big_int_Z.succ_big_int (Big_int_Z.mult_int_big_int 2 x))
    (Big_int_Z.mult_int_big_int 2
    ((fun x -> Big_int_Z.succ_big_int (Big_int_Z.mult_int_big_int 2 x))
    Big_int_Z.unit_big_int)))))) :: ((Big_int_Z.mult_int_big_int 2
    ((fun x -> Big_int_Z.succ_big_int (Big_int_Z.mult_int_big_int 2 x))
    (Big_int_Z.mult_int_big_int 2 (Big_int_Z.mult_int_big_int 2
    ((fun x -> Big_int_Z.succ_big_int (Big_int_Z.mult_int_big_int 2 x))
    ((fun x -> Big_int_Z.succ_big_int (Big_int_Z.mult_int_big_int 2 x))
    Big_int_Z.unit_big_int)))))) :: ((Big_int_Z.mult_int_big_int 2
    (Big_int_Z.mult_int_big_int 2
    ((fun x -> Big_int_Z.succ_big_int (Big_int_Z.mult_int_big_int 2 x))
    (Big_int_Z.mult_int_big_int 2 (Big_int_Z.mult_int_big_int 2
    ((fun x -> Big_int_Z.succ_big_int (Big_int_Z.mult_int_big_int 2 x))
    Big_int_Z.unit_big_int)))))) :: ((Big_int_Z.mult_int_big_int 2
    ((fun x -> Big_int_Z.succ_big_int (Big_int_Z.mult_int_big_int 2 x))
    ((fun x -> Big_int_Z.succ_big_int (Big_int_Z.mult_int_big_int 2 x))
    (Big_int_Z.mult_int_big_int 2
    ((fun x -> Big_int_Z.succ_big_int (Big_int_Z.mult_int_big_int 2 x))
    Big_int_Z.unit_big_int))))) :: ((Big_int_Z.mult_int_big_int 2
    (Big_int_Z.mult_int_big_int 2
    ((fun x -> Big_int_Z.succ_big_int (Big_int_Z.mult_int_big_int 2 x))
    (Big_int_Z.mult_int_big_int 2
    ((fun x -> Big_int_Z.succ_big_int (Big_int_Z.mult_int_big_int 2 x))
    Big_int_Z.unit_big_int))))) :: [])))))),
    KWord64) :: (((((fun x -> Big_int_Z.succ_big_int (Big_int_Z.mult_int_big_int 2 x))
    ((fun x -> Big_int_Z.succ_big_int (Big_int_Z.mult_int_big_int 2 x))
    ((fun x -> Big_int_Z.succ_big_int (Big_int_Z.mult_int_big_int 2 x))
    (Big_int_Z.mult_int_big_int 2
    ((fun x -> Big_int_Z.succ_big_int (Big_int_Z.mult_int_big_int 2 x))
    ((fun x -> Big_int_Z.succ_big_int (Big_int_Z.mult_int_big_int 2 x))
    Big_int_Z.unit_big_int)))))) :: (((fun x -> Big_int_Z.succ_big_int (Big_int_Z.mult_int_big_int 2 x))
    ((fun x -> Big_int_Z.succ_big_int (Big_int_Z.mult_int_big_int 2 x))
    ((fun x -> Big_int_Z.succ_big_int (Big_int_Z.mult_int_big_int 2 x))
    ((fun x -> Big_int_Z.succ_big_int (Big_int_Z.mult_int_big_int 2 x))
    (Big_int_Z.mult_int_big_int 2
    ((fun x -> Big_int_Z.succ_big_int (Big_int_Z.mult_int_big_int 2 x))
    Big_int_Z.unit_big_int)))))) :: ((Big_int_Z.mult_int_big_int 2
    ((fun x -> Big_int_Z.succ_big_int (Big_int_Z.mult_int_big_int 2 x))
    (Big_int_Z.mult_int_big_int 2 (Big_int_Z.mult_int_big_int 2
    ((fun x -> Big_int_Z.succ_big_int (Big_int_Z.mult_int_big_int 2 x))
    ((fun x -> Big_int_Z.succ_big_int (Big_int_Z.mult_int_big_int 2 x))
    Big_int_Z.unit_big_int)))))) :: ((Big_int_Z.mult_int_big_int 2
    (Big_int_Z.mult_int_big_int 2
    ((fun x -> Big_int_Z.succ_big_int (Big_int_Z.mult_int_big_int 2 x))
    (Big_int_Z.mult_int_big_int 2 (Big_int_Z.mult_int_big_int 2
    ((fun x -> Big_int_Z.succ_big_int (Big_int_Z.mult_int_big_int 2 x))
    Big_int_Z.unit_big_int)))))) :: (((fun x -> Big_int_Z.succ_big_int (Big_int_Z.mult_int_big_int 2 x))
    (Big_int_Z.mult_int_big_int 2 (Big_int_Z.mult_int_big_int 2
    (Big_int_Z.mult_int_big_int 2
    ((fun x -> Big_int_Z.succ_big_int (Big_int_Z.mult_int_big_int 2 x))
    Big_int_Z.unit_big_int))))) :: ((Big_int_Z.mult_int_big_int 2
    ((fun x -> Big_int_Z.succ_big_int (Big_int_Z.mult_int_big_int 2 x))
    (Big_int_Z.mult_int_big_int 2 (Big_int_Z.mult_int_big_int 2
    ((fun x -> Big_int_Z.succ_big_int (Big_int_Z.mult_int_big_int 2 x))
    Big_int_Z.unit_big_int))))) :: ((Big_int_Z.mult_int_big_int 2
    (Big_int_Z.mult_int_big_int 2 (Big_int_Z.mult_int_big_int 2
    ((fun x -> Big_int_Z.succ_big_int (Big_int_Z.mult_int_big_int 2 x))
    ((fun x -> Big_int_Z.succ_big_int (Big_int_Z.mult_int_big_int 2 x))
    Big_int_Z.unit_big_int))))) :: []))))))),
    KWord128) :: (((((fun x -> Big_int_Z.succ_big_int (Big_int_Z.mult_int_big_int 2 x))
    ((fun x -> Big_int_Z.succ_big_int (Big_int_Z.mult_int_big_int 2 x))
    ((fun x -> Big_int_Z.succ_big_int (Big_int_Z.mult_int_big_int 2 x))
    ((fun x -> Big_int_Z.succ_big_int (Big_int_Z.mult_int_big_int 2 x))
    ((fun x -> Big_int_Z.succ_big_int (Big_int_Z.mult_int_big_int 2 x))
    (Big_int_Z.mult_int_big_int 2 Big_int_Z.unit_big_int)))))) :: []),
    KPlaceholder) :: []))))))))))))))))))

(** val bool_table : (Big_int_Z.big_int list * Big_int_Z.big_int) list **)

let bool_table =
  (((Big_int_Z.mult_int_big_int 2 (Big_int_Z.mult_int_big_int 2
    ((fun x -> Big_int_Z.succ_big_int (Big_int_Z.mult_int_big_int 2 x))
    (Big_int_Z.mult_int_big_int 2
    ((fun x -> Big_int_Z.succ_big_int (Big_int_Z.mult_int_big_int 2 x))
    ((fun x -> Big_int_Z.succ_big_int (Big_int_Z.mult_int_big_int 2 x))
    Big_int_Z.unit_big_int)))))) :: ((Big_int_Z.mult_int_big_int 2
    ((fun x -> Big_int_Z.succ_big_int (Big_int_Z.mult_int_big_int 2 x))
    (Big_int_Z.mult_int_big_int 2 (Big_int_Z.mult_int_big_int 2
    ((fun x -> Big_int_Z.succ_big_int (Big_int_Z.mult_int_big_int 2 x))
    ((fun x -> Big_int_Z.succ_big_int (Big_int_Z.mult_int_big_int 2 x))
    Big_int_Z.unit_big_int)))))) :: (((fun x -> Big_int_Z.succ_big_int (Big_int_Z.mult_int_big_int 2 x))
    (Big_int_Z.mult_int_big_int 2
    ((fun x -> Big_int_Z.succ_big_int (Big_int_Z.mult_int_big_int 2 x))
    (Big_int_Z.mult_int_big_int 2
    ((fun x -> Big_int_Z.succ_big_int (Big_int_Z.mult_int_big_int 2 x))
    ((fun x -> Big_int_Z.succ_big_int (Big_int_Z.mult_int_big_int 2 x))
    Big_int_Z.unit_big_int)))))) :: (((fun x -> Big_int_Z.succ_big_int (Big_int_Z.mult_int_big_int 2 x))
    (Big_int_Z.mult_int_big_int 2
    ((fun x -> Big_int_Z.succ_big_int (Big_int_Z.mult_int_big_int 2 x))
    (Big_int_Z.mult_int_big_int 2 (Big_int_Z.mult_int_big_int 2
    ((fun x -> Big_int_Z.succ_big_int (Big_int_Z.mult_int_big_int 2 x))
    Big_int_Z.unit_big_int)))))) :: [])))),
    Big_int_Z.unit_big_int) :: ((((Big_int_Z.mult_int_big_int 2
    ((fun x -> Big_int_Z.succ_big_int (Big_int_Z.mult_int_big_int 2 x))
    ((fun x -> Big_int_Z.succ_big_int (Big_int_Z.mult_int_big_int 2 x))
    (Big_int_Z.mult_int_big_int 2 (Big_int_Z.mult_int_big_int 2
    ((fun x -> Big_int_Z.succ_big_int (Big_int_Z.mult_int_big_int 2 x))
    Big_int_Z.unit_big_int)))))) :: (((fun x -> Big_int_Z.succ_big_int (Big_int_Z.mult_int_big_int 2 x))
    (Big_int_Z.mult_int_big_int 2 (Big_int_Z.mult_int_big_int 2
    (Big_int_Z.mult_int_big_int 2 (Big_int_Z.mult_int_big_int 2
    ((fun x -> Big_int_Z.succ_big_int (Big_int_Z.mult_int_big_int 2 x))
    Big_int_Z.unit_big_int)))))) :: ((Big_int_Z.mult_int_big_int 2
    (Big_int_Z.mult_int_big_int 2
    ((fun x -> Big_int_Z.succ_big_int (Big_int_Z.mult_int_big_int 2 x))
    ((fun x -> Big_int_Z.succ_big_int (Big_int_Z.mult_int_big_int 2 x))
    (Big_int_Z.mult_int_big_int 2
    ((fun x -> Big_int_Z.succ_big_int (Big_int_Z.mult_int_big_int 2 x))
    Big_int_Z.unit_big_int)))))) :: (((fun x -> Big_int_Z.succ_big_int (Big_int_Z.mult_int_big_int 2 x))
    ((fun x -> Big_int_Z.succ_big_int (Big_int_Z.mult_int_big_int 2 x))
    (Big_int_Z.mult_int_big_int 2 (Big_int_Z.mult_int_big_int 2
    ((fun x -> Big_int_Z.succ_big_int (Big_int_Z.mult_int_big_int 2 x))
    ((fun x -> Big_int_Z.succ_big_int (Big_int_Z.mult_int_big_int 2 x))
    Big_int_Z.unit_big_int)))))) :: (((fun x -> Big_int_Z.succ_big_int (Big_int_Z.mult_int_big_int 2 x))
    (Big_int_Z.mult_int_big_int 2
    ((fun x -> Big_int_Z.succ_big_int (Big_int_Z.mult_int_big_int 2 x))
    (Big_int_Z.mult_int_big_int 2 (Big_int_Z.mult_int_big_int 2
    ((fun x -> Big_int_Z.succ_big_int (Big_int_Z.mult_int_big_int 2 x))
    Big_int_Z.unit_big_int)))))) :: []))))), Big_int_Z.zero_big_int) :: [])

(** val type_table : (Big_int_Z.big_int list * tykw) list **)

let type_table =
  (((Big_int_Z.mult_int_big_int 2
    ((fun x -> Big_int_Z.succ_big_int (Big_int_Z.mult_int_big_int 2 x))
    ((fun x -> Big_int_Z.succ_big_int (Big_int_Z.mult_int_big_int 2 x))
    (Big_int_Z.mult_int_big_int 2
    ((fun x -> Big_int_Z.succ_big_int (Big_int_Z.mult_int_big_int 2 x))
    ((fun x -> Big_int_Z.succ_big_int (Big_int_Z.mult_int_big_int 2 x))
    Big_int_Z.unit_big_int)))))) :: (((fun x -> Big_int_Z.succ_big_int (Big_int_Z.mult_int_big_int 2 x))
    ((fun x -> Big_int_Z.succ_big_int (Big_int_Z.mult_int_big_int 2 x))
    ((fun x -> Big_int_Z.succ_big_int (Big_int_Z.mult_int_big_int 2 x))
    ((fun x -> Big_int_Z.succ_big_int (Big_int_Z.mult_int_big_int 2 x))
    (Big_int_Z.mult_int_big_int 2
    ((fun x -> Big_int_Z.succ_big_int (Big_int_Z.mult_int_big_int 2 x))
    Big_int_Z.unit_big_int)))))) :: (((fun x -> Big_int_Z.succ_big_int (Big_int_Z.mult_int_big_int 2 x))
    (Big_int_Z.mult_int_big_int 2 (Big_int_Z.mult_int_big_int 2
    ((fun x -> Big_int_Z.succ_big_int (Big_int_Z.mult_int_big_int 2 x))
    (Big_int_Z.mult_int_big_int 2
    ((fun x -> Big_int_Z.succ_big_int (Big_int_Z.mult_int_big_int 2 x))
    Big_int_Z.unit_big_int)))))) :: ((Big_int_Z.mult_int_big_int 2
    (Big_int_Z.mult_int_big_int 2
    ((fun x -> Big_int_Z.succ_big_int (Big_int_Z.mult_int_big_int 2 x))
    (Big_int_Z.mult_int_big_int 2 (Big_int_Z.mult_int_big_int 2
    ((fun x -> Big_int_Z.succ_big_int (Big_int_Z.mult_int_big_int 2 x))
    Big_int_Z.unit_big_int)))))) :: [])))),
    TyVoid) :: (((((fun x -> Big_int_Z.succ_big_int (Big_int_Z.mult_int_big_int 2 x))
    (Big_int_Z.mult_int_big_int 2 (Big_int_Z.mult_int_big_int 2
    ((fun x -> Big_int_Z.succ_big_int (Big_int_Z.mult_int_big_int 2 x))
    (Big_int_Z.mult_int_big_int 2
    ((fun x -> Big_int_Z.succ_big_int (Big_int_Z.mult_int_big_int 2 x))
    Big_int_Z.unit_big_int)))))) :: ((Big_int_Z.mult_int_big_int 2
    (Big_int_Z.mult_int_big_int 2 (Big_int_Z.mult_int_big_int 2
    ((fun x -> Big_int_Z.succ_big_int (Big_int_Z.mult_int_big_int 2 x))
    ((fun x -> Big_int_Z.succ_big_int (Big_int_Z.mult_int_big_int 2 x))
    Big_int_Z.unit_big_int))))) :: [])), (TyPrim
    Int8)) :: (((((fun x -> Big_int_Z.succ_big_int (Big_int_Z.mult_int_big_int 2 x))
    (Big_int_Z.mult_int_big_int 2 (Big_int_Z.mult_int_big_int 2
    ((fun x -> Big_int_Z.succ_big_int (Big_int_Z.mult_int_big_int 2 x))
    (Big_int_Z.mult_int_big_int 2
    ((fun x -> Big_int_Z.succ_big_int (Big_int_Z.mult_int_big_int 2 x))
    Big_int_Z.unit_big_int)))))) :: (((fun x -> Big_int_Z.succ_big_int (Big_int_Z.mult_int_big_int 2 x))
    (Big_int_Z.mult_int_big_int 2 (Big_int_Z.mult_int_big_int 2
    (Big_int_Z.mult_int_big_int 2
    ((fun x -> Big_int_Z.succ_big_int (Big_int_Z.mult_int_big_int 2 x))
    Big_int_Z.unit_big_int))))) :: ((Big_int_Z.mult_int_big_int 2
    ((fun x -> Big_int_Z.succ_big_int (Big_int_Z.mult_int_big_int 2 x))
    ((fun x -> Big_int_Z.succ_big_int (Big_int_Z.mult_int_big_int 2 x))
    (Big_int_Z.mult_int_big_int 2
    ((fun x -> Big_int_Z.succ_big_int (Big_int_Z.mult_int_big_int 2 x))
    Big_int_Z.unit_big_int))))) :: []))), (TyPrim
    Int16)) :: (((((fun x -> Big_int_Z.succ_big_int (Big_int_Z.mult_int_big_int 2 x))
    (Big_int_Z.mult_int_big_int 2 (Big_int_Z.mult_int_big_int 2
    ((fun x -> Big_int_Z.succ_big_int (Big_int_Z.mult_int_big_int 2 x))
    (Big_int_Z.mult_int_big_int 2
    ((fun x -> Big_int_Z.succ_big_int (Big_int_Z.mult_int_big_int 2 x))
    Big_int_Z.unit_big_int)))))) :: (((fun x -> Big_int_Z.succ_big_int (Big_int_Z.mult_int_big_int 2 x))
    ((fun x -> Big_int_Z.succ_big_int (Big_int_Z.mult_int_big_int 2 x))
    (Big_int_Z.mult_int_big_int 2 (Big_int_Z.mult_int_big_int 2
    ((fun x -> Big_int_Z.succ_big_int (Big_int_Z.mult_int_big_int 2 x))
    Big_int_Z.unit_big_int))))) :: ((Big_int_Z.mult_int_big_int 2
    ((fun x -> Big_int_Z.succ_big_int (Big_int_Z.mult_int_big_int 2 x))
    (Big_int_Z.mult_int_big_int 2 (Big_int_Z.mult_int_big_int 2
    ((fun x -> Big_int_Z.succ_big_int (Big_int_Z.mult_int_big_int 2 x))
    Big_int_Z.unit_big_int))))) :: []))), (TyPrim
    Int32)) :: (((((fun x -> Big_int_Z.succ_big_int (Big_int_Z.mult_int_big_int 2 x))
    (Big_int_Z.mult_int_big_int 2 (Big_int_Z.mult_int_big_int 2
    ((fun x -> Big_int_Z.succ_big_int (Big_int_Z.mult_int_big_int 2 x))
    (Big_int_Z.mult_int_big_int 2
    ((fun x -> Big_int_Z.succ_big_int (Big_int_Z.mult_int_big_int 2 x))
    Big_int_Z.unit_big_int)))))) :: ((Big_int_Z.mult_int_big_int 2
    ((fun x -> Big_int_Z.succ_big_int (Big_int_Z.mult_int_big_int 2 x))
    ((fun x -> Big_int_Z.succ_big_int (Big_int_Z.mult_int_big_int 2 x))
    (Big_int_Z.mult_int_big_int 2
    ((fun x -> Big_int_Z.succ_big_int (Big_int_Z.mult_int_big_int 2 x))
    Big_int_Z.unit_big_int))))) :: ((Big_int_Z.mult_int_big_int 2
    (Big_int_Z.mult_int_big_int 2
    ((fun x -> Big_int_Z.succ_big_int (Big_int_Z.mult_int_big_int 2 x))
    (Big_int_Z.mult_int_big_int 2
    ((fun x -> Big_int_Z.succ_big_int (Big_int_Z.mult_int_big_int 2 x))
    Big_int_Z.unit_big_int))))) :: []))), (TyPrim
    Int64)) :: (((((fun x -> Big_int_Z.succ_big_int (Big_int_Z.mult_int_big_int 2 x))
    (Big_int_Z.mult_int_big_int 2 (Big_int_Z.mult_int_big_int 2
    ((fun x -> Big_int_Z.succ_big_int (Big_int_Z.mult_int_big_int 2 x))
    (Big_int_Z.mult_int_big_int 2
    ((fun x -> Big_int_Z.succ_big_int (Big_int_Z.mult_int_big_int 2 x))
    Big_int_Z.unit_big_int)))))) :: (((fun x -> Big_int_Z.succ_big_int (Big_int_Z.mult_int_big_int 2 x))
    (Big_int_Z.mult_int_big_int 2 (Big_int_Z.mult_int_big_int 2
    (Big_int_Z.mult_int_big_int 2
    ((fun x -> Big_int_Z.succ_big_int (Big_int_Z.mult_int_big_int 2 x))
    Big_int_Z.unit_big_int))))) :: ((Big_int_Z.mult_int_big_int 2
    ((fun x -> Big_int_Z.succ_big_int (Big_int_Z.mult_int_big_int 2 x))
    (Big_int_Z.mult_int_big_int 2 (Big_int_Z.mult_int_big_int 2
    ((fun x -> Big_int_Z.succ_big_int (Big_int_Z.mult_int_big_int 2 x))
    Big_int_Z.unit_big_int))))) :: ((Big_int_Z.mult_int_big_int 2
    (Big_int_Z.mult_int_big_int 2 (Big_int_Z.mult_int_big_int 2
    ((fun x -> Big_int_Z.succ_big_int (Big_int_Z.mult_int_big_int 2 x))
    ((fun x -> Big_int_Z.succ_big_int (Big_int_Z.mult_int_big_int 2 x))
    Big_int_Z.unit_big_int))))) :: [])))), (TyPrim
    Int128)) :: (((((fun x -> Big_int_Z.succ_big_int (Big_int_Z.mult_int_big_int 2 x))
    (Big_int_Z.mult_int_big_int 2
    ((fun x -> Big_int_Z.succ_big_int (Big_int_Z.mult_int_big_int 2 x))
    (Big_int_Z.mult_int_big_int 2
    ((fun x -> Big_int_Z.succ_big_int (Big_int_Z.mult_int_big_int 2 x))
    ((fun x -> Big_int_Z.succ_big_int (Big_int_Z.mult_int_big_int 2 x))
    Big_int_Z.unit_big_int)))))) :: ((Big_int_Z.mult_int_big_int 2
    (Big_int_Z.mult_int_big_int 2 (Big_int_Z.mult_int_big_int 2
    ((fun x -> Big_int_Z.succ_big_int (Big_int_Z.mult_int_big_int 2 x))
    ((fun x -> Big_int_Z.succ_big_int (Big_int_Z.mult_int_big_int 2 x))
    Big_int_Z.unit_big_int))))) :: [])), (TyPrim
    Uint8)) :: (((((fun x -> Big_int_Z.succ_big_int (Big_int_Z.mult_int_big_int 2 x))
    (Big_int_Z.mult_int_big_int 2
    ((fun x -> Big_int_Z.succ_big_int (Big_int_Z.mult_int_big_int 2 x))
    (Big_int_Z.mult_int_big_int 2
    ((fun x -> Big_int_Z.succ_big_int (Big_int_Z.mult_int_big_int 2 x))
    ((fun x -> Big_int_Z.succ_big_int (Big_int_Z.mult_int_big_int 2 x))
    Big_int_Z.unit_big_int)))))) :: (((fun x -> Big_int_Z.succ_big_int (Big_int_Z.mult_int_big_int 2 x))
    (Big_int_Z.mult_int_big_int 2 (Big_int_Z.mult_int_big_int 2
    (Big_int_Z.mult_int_big_int 2
    ((fun x -> Big_int_Z.succ_big_int (Big_int_Z.mult_int_big_int 2 x))
    Big_int_Z.unit_big_int))))) :: ((Big_int_Z.mult_int_big_int 2
    ((fun x -> Big_int_Z.succ_big_int (Big_int_Z.mult_int_big_int 2 x))
    ((fun x -> Big_int_Z.succ_big_int (Big_int_Z.mult_int_big_int 2 x))
    (Big_int_Z.mult_int_big_int 2
    ((fun x -> Big_int_Z.succ_big_int (Big_int_Z.mult_int_big_int 2 x))
    Big_int_Z.unit_big_int))))) :: []))), (TyPrim
    Uint16)) :: (((((fun x -> Big_int_Z.succ_big_int (Big_int_Z.mult_int_big_int 2 x))
    (Big_int_Z.mult_int_big_int 2
    ((fun x -> Big_int_Z.succ_big_int (Big_int_Z.mult_int_big_int 2 x))
    (Big_int_Z.mult_int_big_int 2
    ((fun x -> Big_int_Z.succ_big_int (Big_int_Z.mult_int_big_int 2 x))
    ((fun x -> Big_int_Z.succ_big_int (Big_int_Z.mult_int_big_int 2 x))
    Big_int_Z.unit_big_int)))))) :: (((fun x -> Big_int_Z.succ_big_int (Big_int_Z.mult_int_big_int 2 x))
    ((fun x -> Big_int_Z.succ_big_int (Big_int_Z.mult_int_big_int 2 x))
    (Big_int_Z.mult_int_big_int 2 (Big_int_Z.mult_int_big_int 2
    ((fun x -> Big_int_Z.succ_big_int (Big_int_Z.mult_int_big_int 2 x))
    Big_int_Z.unit_big_int))))) :: ((Big_int_Z.mult_int_big_int 2
    ((fun x -> Big_int_Z.succ_big_int (Big_int_Z.mult_int_big_int 2 x))
    (Big_int_Z.mult_int_big_int 2 (Big_int_Z.mult_int_big_int 2
    ((fun x -> Big_int_Z.succ_big_int (Big_int_Z.mult_int_big_int 2 x))
    Big_int_Z.unit_big_int))))) :: []))), (TyPrim
    Uint32)) :: (((((fun x -> Big_int_Z.succ_big_int (Big_int_Z.mult_int_big_int 2 x))
    (Big_int_Z.mult_int_big_int 2
    ((fun x -> Big_int_Z.succ_big_int (Big_int_Z.mult_int_big_int 2 x))
    (Big_int_Z.mult_int_big_int 2
    ((fun x -> Big_int_Z.succ_big_int (Big_int_Z.mult_int_big_int 2 x))
    ((fun x -> Big_int_Z.succ_big_int (Big_int_Z.mult_int_big_int 2 x))
    Big_int_Z.unit_big_int)))))) :: ((Big_int_Z.mult_int_big_int 2
    ((fun x -> Big_int_Z.succ_big_int (Big_int_Z.mult_int_big_int 2 x))
    ((fun x -> Big_int_Z.succ_big_int (Big_int_Z.mult_int_big_int 2 x))
    (Big_int_Z.mult_int_big_int 2
    ((fun x -> Big_int_Z.succ_big_int (Big_int_Z.mult_int_big_int 2 x))
    Big_int_Z.unit_big_int))))) :: ((Big_int_Z.mult_int_big_int 2
    (Big_int_Z.mult_int_big_int 2
    ((fun x -> Big_int_Z.succ_big_int (Big_int_Z.mult_int_big_int 2 x))
    (Big_int_Z.mult_int_big_int 2
    ((fun x -> Big_int_Z.succ_big_int (Big_int_Z.mult_int_big_int 2 x))
    Big_int_Z.unit_big_int))))) :: []))), (TyPrim
    Uint64)) :: (((((fun x -> Big_int_Z.succ_big_int (Big_int_Z.mult_int_big_int 2 x))
    (Big_int_Z.mult_int_big_int 2
    ((fun x -> Big_int_Z.succ_big_int (Big_int_Z.mult_int_big_int 2 x))
    (Big_int_Z.mult_int_big_int 2
    ((fun x -> Big_int_Z.succ_big_int (Big_int_Z.mult_int_big_int 2 x))
    ((fun x -> Big_int_Z.succ_big_int (Big_int_Z.mult_int_big_int 2 x))
    Big_int_Z.unit_big_int)))))) :: (((fun x -> Big_int_Z.succ_big_int (Big_int_Z.mult_int_big_int 2 x))
    (Big_int_Z.mult_int_big_int 2 (Big_int_Z.mult_int_big_int 2
    (Big_int_Z.mult_int_big_int 2
    ((fun x -> Big_int_Z.succ_big_int (Big_int_Z.mult_int_big_int 2 x))
    Big_int_Z.unit_big_int))))) :: ((Big_int_Z.mult_int_big_int 2
    ((fun x -> Big_int_Z.succ_big_int (Big_int_Z.mult_int_big_int 2 x))
    (Big_int_Z.mult_int_big_int 2 (Big_int_Z.mult_int_big_int 2
    ((fun x -> Big_int_Z.succ_big_int (Big_int_Z.mult_int_big_int 2 x))
    Big_int_Z.unit_big_int))))) :: ((Big_int_Z.mult_int_big_int 2
    (Big_int_Z.mult_int_big_int 2 (Big_int_Z.mult_int_big_int 2
    ((fun x -> Big_int_Z.succ_big_int (Big_int_Z.mult_int_big_int 2 x))
    ((fun x -> Big_int_Z.succ_big_int (Big_int_Z.mult_int_big_int 2 x))
    Big_int_Z.unit_big_int))))) :: [])))), (TyPrim
    Uint128)) :: (((((fun x -> Big_int_Z.succ_big_int (Big_int_Z.mult_int_big_int 2 x))
    (Big_int_Z.mult_int_big_int 2
    ((fun x -> Big_int_Z.succ_big_int (Big_int_Z.mult_int_big_int 2 x))
    (Big_int_Z.mult_int_big_int 2
    ((fun x -> Big_int_Z.succ_big_int (Big_int_Z.mult_int_big_int 2 x))
    ((fun x -> Big_int_Z.succ_big_int (Big_int_Z.mult_int_big_int 2 x))
    Big_int_Z.unit_big_int)))))) :: (((fun x -> Big_int_Z.succ_big_int (Big_int_Z.mult_int_big_int 2 x))
    ((fun x -> Big_int_Z.succ_big_int (Big_int_Z.mult_int_big_int 2 x))
    (Big_int_Z.mult_int_big_int 2 (Big_int_Z.mult_int_big_int 2
    ((fun x -> Big_int_Z.succ_big_int (Big_int_Z.mult_int_big_int 2 x))
    ((fun x -> Big_int_Z.succ_big_int (Big_int_Z.mult_int_big_int 2 x))
    Big_int_Z.unit_big_int)))))) :: (((fun x -> Big_int_Z.succ_big_int (Big_int_Z.mult_int_big_int 2 x))
    (Big_int_Z.mult_int_big_int 2 (Big_int_Z.mult_int_big_int 2
    ((fun x -> Big_int_Z.succ_big_int (Big_int_Z.mult_int_big_int 2 x))
    (Big_int_Z.mult_int_big_int 2
    ((fun x -> Big_int_Z.succ_big_int (Big_int_Z.mult_int_big_int 2 x))
    Big_int_Z.unit_big_int)))))) :: ((Big_int_Z.mult_int_big_int 2
    ((fun x -> Big_int_Z.succ_big_int (Big_int_Z.mult_int_big_int 2 x))
    (Big_int_Z.mult_int_big_int 2
    ((fun x -> Big_int_Z.succ_big_int (Big_int_Z.mult_int_big_int 2 x))
    ((fun x -> Big_int_Z.succ_big_int (Big_int_Z.mult_int_big_int 2 x))
    ((fun x -> Big_int_Z.succ_big_int (Big_int_Z.mult_int_big_int 2 x))
    Big_int_Z.unit_big_int)))))) :: (((fun x -> Big_int_Z.succ_big_int (Big_int_Z.mult_int_big_int 2 x))
    (Big_int_Z.mult_int_big_int 2
    ((fun x -> Big_int_Z.succ_big_int (Big_int_Z.mult_int_big_int 2 x))
    (Big_int_Z.mult_int_big_int 2 (Big_int_Z.mult_int_big_int 2
    ((fun x -> Big_int_Z.succ_big_int (Big_int_Z.mult_int_big_int 2 x))
    Big_int_Z.unit_big_int)))))) :: []))))), (TyPrim
    Usize)) :: (((((fun x -> Big_int_Z.succ_big_int (Big_int_Z.mult_int_big_int 2 x))
    ((fun x -> Big_int_Z.succ_big_int (Big_int_Z.mult_int_big_int 2 x))
    (Big_int_Z.mult_int_big_int 2 (Big_int_Z.mult_int_big_int 2
    (Big_int_Z.mult_int_big_int 2
    ((fun x -> Big_int_Z.succ_big_int (Big_int_Z.mult_int_big_int 2 x))
    Big_int_Z.unit_big_int)))))) :: ((Big_int_Z.mult_int_big_int 2
    (Big_int_Z.mult_int_big_int 2 (Big_int_Z.mult_int_big_int 2
    ((fun x -> Big_int_Z.succ_big_int (Big_int_Z.mult_int_big_int 2 x))
    (Big_int_Z.mult_int_big_int 2
    ((fun x -> Big_int_Z.succ_big_int (Big_int_Z.mult_int_big_int 2 x))
    Big_int_Z.unit_big_int)))))) :: (((fun x -> Big_int_Z.succ_big_int (Big_int_Z.mult_int_big_int 2 x))
    (Big_int_Z.mult_int_big_int 2 (Big_int_Z.mult_int_big_int 2
    (Big_int_Z.mult_int_big_int 2 (Big_int_Z.mult_int_big_int 2
    ((fun x -> Big_int_Z.succ_big_int (Big_int_Z.mult_int_big_int 2 x))
    Big_int_Z.unit_big_int)))))) :: ((Big_int_Z.mult_int_big_int 2
    ((fun x -> Big_int_Z.succ_big_int (Big_int_Z.mult_int_big_int 2 x))
    (Big_int_Z.mult_int_big_int 2 (Big_int_Z.mult_int_big_int 2
    ((fun x -> Big_int_Z.succ_big_int (Big_int_Z.mult_int_big_int 2 x))
    ((fun x -> Big_int_Z.succ_big_int (Big_int_Z.mult_int_big_int 2 x))
    Big_int_Z.unit_big_int)))))) :: ((Big_int_Z.mult_int_big_int 2
    (Big_int_Z.mult_int_big_int 2 (Big_int_Z.mult_int_big_int 2
    ((fun x -> Big_int_Z.succ_big_int (Big_int_Z.mult_int_big_int 2 x))
    ((fun x -> Big_int_Z.succ_big_int (Big_int_Z.mult_int_big_int 2 x))
    Big_int_Z.unit_big_int))))) :: []))))), (TyPrim
    Char8)) :: ((((Big_int_Z.mult_int_big_int 2
    ((fun x -> Big_int_Z.succ_big_int (Big_int_Z.mult_int_big_int 2 x))
    (Big_int_Z.mult_int_big_int 2 (Big_int_Z.mult_int_big_int 2
    (Big_int_Z.mult_int_big_int 2
    ((fun x -> Big_int_Z.succ_big_int (Big_int_Z.mult_int_big_int 2 x))
    Big_int_Z.unit_big_int)))))) :: (((fun x -> Big_int_Z.succ_big_int (Big_int_Z.mult_int_big_int 2 x))
    ((fun x -> Big_int_Z.succ_big_int (Big_int_Z.mult_int_big_int 2 x))
    ((fun x -> Big_int_Z.succ_big_int (Big_int_Z.mult_int_big_int 2 x))
    ((fun x -> Big_int_Z.succ_big_int (Big_int_Z.mult_int_big_int 2 x))
    (Big_int_Z.mult_int_big_int 2
    ((fun x -> Big_int_Z.succ_big_int (Big_int_Z.mult_int_big_int 2 x))
    Big_int_Z.unit_big_int)))))) :: (((fun x -> Big_int_Z.succ_big_int (Big_int_Z.mult_int_big_int 2 x))
    ((fun x -> Big_int_Z.succ_big_int (Big_int_Z.mult_int_big_int 2 x))
    ((fun x -> Big_int_Z.succ_big_int (Big_int_Z.mult_int_big_int 2 x))
    ((fun x -> Big_int_Z.succ_big_int (Big_int_Z.mult_int_big_int 2 x))
    (Big_int_Z.mult_int_big_int 2
    ((fun x -> Big_int_Z.succ_big_int (Big_int_Z.mult_int_big_int 2 x))
    Big_int_Z.unit_big_int)))))) :: ((Big_int_Z.mult_int_big_int 2
    (Big_int_Z.mult_int_big_int 2
    ((fun x -> Big_int_Z.succ_big_int (Big_int_Z.mult_int_big_int 2 x))
    ((fun x -> Big_int_Z.succ_big_int (Big_int_Z.mult_int_big_int 2 x))
    (Big_int_Z.mult_int_big_int 2
    ((fun x -> Big_int_Z.succ_big_int (Big_int_Z.mult_int_big_int 2 x))
    Big_int_Z.unit_big_int)))))) :: [])))), (TyPrim Bool)) :: [])))))))))))))

(** val suffix_table : (Big_int_Z.big_int list * prim) list **)

let suffix_table =
  ((((fun x -> Big_int_Z.succ_big_int (Big_int_Z.mult_int_big_int 2 x))
    (Big_int_Z.mult_int_big_int 2 (Big_int_Z.mult_int_big_int 2
    ((fun x -> Big_int_Z.succ_big_int (Big_int_Z.mult_int_big_int 2 x))
    (Big_int_Z.mult_int_big_int 2
    ((fun x -> Big_int_Z.succ_big_int (Big_int_Z.mult_int_big_int 2 x))
    Big_int_Z.unit_big_int)))))) :: ((Big_int_Z.mult_int_big_int 2
    (Big_int_Z.mult_int_big_int 2 (Big_int_Z.mult_int_big_int 2
    ((fun x -> Big_int_Z.succ_big_int (Big_int_Z.mult_int_big_int 2 x))
    ((fun x -> Big_int_Z.succ_big_int (Big_int_Z.mult_int_big_int 2 x))
    Big_int_Z.unit_big_int))))) :: [])),
    Int8) :: (((((fun x -> Big_int_Z.succ_big_int (Big_int_Z.mult_int_big_int 2 x))
    (Big_int_Z.mult_int_big_int 2 (Big_int_Z.mult_int_big_int 2
    ((fun x -> Big_int_Z.succ_big_int (Big_int_Z.mult_int_big_int 2 x))
    (Big_int_Z.mult_int_big_int 2
    ((fun x -> Big_int_Z.succ_big_int (Big_int_Z.mult_int_big_int 2 x))
    Big_int_Z.unit_big_int)))))) :: (((fun x -> Big_int_Z.succ_big_int (Big_int_Z.mult_int_big_int 2 x))
    (Big_int_Z.mult_int_big_int 2 (Big_int_Z.mult_int_big_int 2
    (Big_int_Z.mult_int_big_int 2
    ((fun x -> Big_int_Z.succ_big_int (Big_int_Z.mult_int_big_int 2 x))
    Big_int_Z.unit_big_int))))) :: ((Big_int_Z.mult_int_big_int 2
    ((fun x -> Big_int_Z.succ_big_int (Big_int_Z.mult_int_big_int 2 x))
    ((fun x -> Big_int_Z.succ_big_int (Big_int_Z.mult_int_big_int 2 x))
    (Big_int_Z.mult_int_big_int 2
    ((fun x -> Big_int_Z.succ_big_int (Big_int_Z.mult_int_big_int 2 x))
    Big_int_Z.unit_big_int))))) :: []))),
    Int16) :: (((((fun x -> Big_int_Z.succ_big_int (Big_int_Z.mult_int_big_int 2 x))
    (Big_int_Z.mult_int_big_int 2 (Big_int_Z.mult_int_big_int 2
    ((fun x -> Big_int_Z.succ_big_int (Big_int_Z.mult_int_big_int 2 x))
    (Big_int_Z.mult_int_big_int 2
    ((fun x -> Big_int_Z.succ_big_int (Big_int_Z.mult_int_big_int 2 x))
    Big_int_Z.unit_big_int)))))) :: (((fun x -> Big_int_Z.succ_big_int (Big_int_Z.mult_int_big_int 2 x))
    ((fun x -> Big_int_Z.succ_big_int (Big_int_Z.mult_int_big_int 2 x))
    (Big_int_Z.mult_int_big_int 2 (Big_int_Z.mult_int_big_int 2
    ((fun x -> Big_int_Z.succ_big_int (Big_int_Z.mult_int_big_int 2 x))
    Big_int_Z.unit_big_int))))) :: ((Big_int_Z.mult_int_big_int 2
    ((fun x -> Big_int_Z.succ_big_int (Big_int_Z.mult_int_big_int 2 x))
    (Big_int_Z.mult_int_big_int 2 (Big_int_Z.mult_int_big_int 2
    ((fun x -> Big_int_Z.succ_big_int (Big_int_Z.mult_int_big_int 2 x))
    Big_int_Z.unit_big_int))))) :: []))),
    Int32) :: (((((fun x -> Big_int_Z.succ_big_int (Big_int_Z.mult_int_big_int 2 x))
    (Big_int_Z.mult_int_big_int 2 (Big_int_Z.mult_int_big_int 2
    ((fun x -> Big_int_Z.succ_big_int (Big_int_Z.mult_int_big_int 2 x))
    (Big_int_Z.mult_int_big_int 2
    ((fun x -> Big_int_Z.succ_big_int (Big_int_Z.mult_int_big_int 2 x))
    Big_int_Z.unit_big_int)))))) :: ((Big_int_Z.mult_int_big_int 2
    ((fun x -> Big_int_Z.succ_big_int (Big_int_Z.mult_int_big_int 2 x))
    ((fun x -> Big_int_Z.succ_big_int (Big_int_Z.mult_int_big_int 2 x))
    (Big_int_Z.mult_int_big_int 2
    ((fun x -> Big_int_Z.succ_big_int (Big_int_Z.mult_int_big_int 2 x))
    Big_int_Z.unit_big_int))))) :: ((Big_int_Z.mult_int_big_int 2
    (Big_int_Z.mult_int_big_int 2
    ((fun x -> Big_int_Z.succ_big_int (Big_int_Z.mult_int_big_int 2 x))
    (Big_int_Z.mult_int_big_int 2
    ((fun x -> Big_int_Z.succ_big_int (Big_int_Z.mult_int_big_int 2 x))
    Big_int_Z.unit_big_int))))) :: []))),
    Int64) :: (((((fun x -> Big_int_Z.succ_big_int (Big_int_Z.mult_int_big_int 2 x))
    (Big_int_Z.mult_int_big_int 2 (Big_int_Z.mult_int_big_int 2
    ((fun x -> Big_int_Z.succ_big_int (Big_int_Z.mult_int_big_int 2 x))
    (Big_int_Z.mult_int_big_int 2
    ((fun x -> Big_int_Z.succ_big_int (Big_int_Z.mult_int_big_int 2 x))
    Big_int_Z.unit_big_int)))))) :: (((fun x -> Big_int_Z.succ_big_int (Big_int_Z.mult_int_big_int 2 x))
    (Big_int_Z.mult_int_big_int 2 (Big_int_Z.mult_int_big_int 2
    (Big_int_Z.mult_int_big_int 2
    ((fun x -> Big_int_Z.succ_big_int (Big_int_Z.mult_int_big_int 2 x))
    Big_int_Z.unit_big_int))))) :: ((Big_int_Z.mult_int_big_int 2
    ((fun x -> Big_int_Z.succ_big_int (Big_int_Z.mult_int_big_int 2 x))
    (Big_int_Z.mult_int_big_int 2 (Big_int_Z.mult_int_big_int 2
    ((fun x -> Big_int_Z.succ_big_int (Big_int_Z.mult_int_big_int 2 x))
    Big_int_Z.unit_big_int))))) :: ((Big_int_Z.mult_int_big_int 2
    (Big_int_Z.mult_int_big_int 2 (Big_int_Z.mult_int_big_int 2
    ((fun x -> Big_int_Z.succ_big_int (Big_int_Z.mult_int_big_int 2 x))
    ((fun x -> Big_int_Z.succ_big_int (Big_int_Z.mult_int_big_int 2 x))
    Big_int_Z.unit_big_int))))) :: [])))),
    Int128) :: (((((fun x -> Big_int_Z.succ_big_int (Big_int_Z.mult_int_big_int 2 x))
    (Big_int_Z.mult_int_big_int 2
    ((fun x -> Big_int_Z.succ_big_int (Big_int_Z.mult_int_big_int 2 x))
    (Big_int_Z.mult_int_big_int 2
    ((fun x -> Big_int_Z.succ_big_int (Big_int_Z.mult_int_big_int 2 x))
    ((fun x -> Big_int_Z.succ_big_int (Big_int_Z.mult_int_big_int 2 x))
    Big_int_Z.unit_big_int)))))) :: ((Big_int_Z.mult_int_big_int 2
    (Big_int_Z.mult_int_big_int 2 (Big_int_Z.mult_int_big_int 2
    ((fun x -> Big_int_Z.succ_big_int (Big_int_Z.mult_int_big_int 2 x))
    ((fun x -> Big_int_Z.succ_big_int (Big_int_Z.mult_int_big_int 2 x))
    Big_int_Z.unit_big_int))))) :: [])),
    Uint8) :: (((((fun x -> Big_int_Z.succ_big_int (Big_int_Z.mult_int_big_int 2 x))
    (Big_int_Z.mult_int_big_int 2
    ((fun x -> Big_int_Z.succ_big_int (Big_int_Z.mult_int_big_int 2 x))
    (Big_int_Z.mult_int_big_int 2
    ((fun x -> Big_int_Z.succ_big_int (Big_int_Z.mult_int_big_int 2 x))
    ((fun x -> Big_int_Z.succ_big_int (Big_int_Z.mult_int_big_int 2 x))
    Big_int_Z.unit_big_int)))))) :: (((fun x -> Big_int_Z.succ_big_int (Big_int_Z.mult_int_big_int 2 x))
    (Big_int_Z.mult_int_big_int 2 (Big_int_Z.mult_int_big_int 2
    (Big_int_Z.mult_int_big_int 2
    ((fun x -> Big_int_Z.succ_big_int (Big_int_Z.mult_int_big_int 2 x))
    Big_int_Z.unit_big_int))))) :: ((Big_int_Z.mult_int_big_int 2
    ((fun x -> Big_int_Z.succ_big_int (Big_int_Z.mult_int_big_int 2 x))
    ((fun x -> Big_int_Z.succ_big_int (Big_int_Z.mult_int_big_int 2 x))
    (Big_int_Z.mult_int_big_int 2
    ((fun x -> Big_int_Z.succ_big_int (Big_int_Z.mult_int_big_int 2 x))
    Big_int_Z.unit_big_int))))) :: []))),
    Uint16) :: (((((fun x -> Big_int_Z.succ_big_int (Big_int_Z.mult_int_big_int 2 x))
    (Big_int_Z.mult_int_big_int 2
    ((fun x -> Big_int_Z.succ_big_int (Big_int_Z.mult_int_big_int 2 x))
    (Big_int_Z.mult_int_big_int 2
    ((fun x -> Big_int_Z.succ_big_int (Big_int_Z.mult_int_big_int 2 x))
    ((fun x -> Big_int_Z.succ_big_int (Big_int_Z.mult_int_big_int 2 x))
    Big_int_Z.unit_big_int)))))) :: (((fun x -> Big_int_Z.succ_big_int (Big_int_Z.mult_int_big_int 2 x))
    ((fun x -> Big_int_Z.succ_big_int (Big_int_Z.mult_int_big_int 2 x))
    (Big_int_Z.mult_int_big_int 2 (Big_int_Z.mult_int_big_int 2
    ((fun x -> Big_int_Z.succ_big_int (Big_int_Z.mult_int_big_int 2 x))
    Big_int_Z.unit_big_int))))) :: ((Big_int_Z.mult_int_big_int 2
    ((fun x -> Big_int_Z.succ_big_int (Big_int_Z.mult_int_big_int 2 x))
    (Big_int_Z.mult_int_big_int 2 (Big_int_Z.mult_int_big_int 2
    ((fun x -> Big_int_Z.succ_big_int (Big_int_Z.mult_int_big_int 2 x))
    Big_int_Z.unit_big_int))))) :: []))),
    Uint32) :: (((((fun x -> Big_int_Z.succ_big_int (Big_int_Z.mult_int_big_int 2 x))
    (Big_int_Z.mult_int_big_int 2
    ((fun x -> Big_int_Z.succ_big_int (Big_int_Z.mult_int_big_int 2 x))
    (Big_int_Z.mult_int_big_int 2
    ((fun x -> Big_int_Z.succ_big_int (Big_int_Z.mult_int_big_int 2 x))
    ((fun x -> Big_int_Z.succ_big_int (Big_int_Z.mult_int_big_int 2 x))
    Big_int_Z.unit_big_int)))))) :: ((Big_int_Z.mult_int_big_int 2
    ((fun x -> Big_int_Z.succ_big_int (Big_int_Z.mult_int_big_int 2 x))
    ((fun x -> Big_int_Z.succ_big_int (Big_int_Z.mult_int_big_int 2 x))
    (Big_int_Z.mult_int_big_int 2
    ((fun x -> Big_int_Z.succ_big_int (Big_int_Z.mult_int_big_int 2 x))
    Big_int_Z.unit_big_int))))) :: ((Big_int_Z.mult_int_big_int 2
    (Big_int_Z.mult_int_big_int 2
    ((fun x -> Big_int_Z.succ_big_int (Big_int_Z.mult_int_big_int 2 x))
    (Big_int_Z.mult_int_big_int 2
    ((fun x -> Big_int_Z.succ_big_int (Big_int_Z.mult_int_big_int 2 x))
    Big_int_Z.unit_big_int))))) :: []))),
    Uint64) :: (((((fun x -> Big_int_Z.succ_big_int (Big_int_Z.mult_int_big_int 2 x))
    (Big_int_Z.mult_int_big_int 2
    ((fun x -> Big_int_Z.succ_big_int (Big_int_Z.mult_int_big_int 2 x))
    (Big_int_Z.mult_int_big_int 2
    ((fun x -> Big_int_Z.succ_big_int (Big_int_Z.mult_int_big_int 2 x))
    ((fun x -> Big_int_Z.succ_big_int (Big_int_Z.mult_int_big_int 2 x))
    Big_int_Z.unit_big_int)))))) :: (((fun x -> Big_int_Z.succ_big_int (Big_int_Z.mult_int_big_int 2 x))
    (Big_int_Z.mult_int_big_int 2 (Big_int_Z.mult_int_big_int 2
    (Big_int_Z.mult_int_big_int 2
    ((fun x -> Big_int_Z.succ_big_int (Big_int_Z.mult_int_big_int 2 x))
    Big_int_Z.unit_big_int))))) :: ((Big_int_Z.mult_int_big_int 2
    ((fun x -> Big_int_Z.succ_big_int (Big_int_Z.mult_int_big_int 2 x))
    (Big_int_Z.mult_int_big_int 2 (Big_int_Z.mult_int_big_int 2
    ((fun x -> Big_int_Z.succ_big_int (Big_int_Z.mult_int_big_int 2 x))
    Big_int_Z.unit_big_int))))) :: ((Big_int_Z.mult_int_big_int 2
    (Big_int_Z.mult_int_big_int 2 (Big_int_Z.mult_int_big_int 2
    ((fun x -> Big_int_Z.succ_big_int (Big_int_Z.mult_int_big_int 2 x))
    ((fun x -> Big_int_Z.succ_big_int (Big_int_Z.mult_int_big_int 2 x))
    Big_int_Z.unit_big_int))))) :: [])))),
    Uint128) :: (((((fun x -> Big_int_Z.succ_big_int (Big_int_Z.mult_int_big_int 2 x))
    (Big_int_Z.mult_int_big_int 2
    ((fun x -> Big_int_Z.succ_big_int (Big_int_Z.mult_int_big_int 2 x))
    (Big_int_Z.mult_int_big_int 2
    ((fun x -> Big_int_Z.succ_big_int (Big_int_Z.mult_int_big_int 2 x))
    ((fun x -> Big_int_Z.succ_big_int (Big_int_Z.mult_int_big_int 2 x))
    Big_int_Z.unit_big_int)))))) :: (((fun x -> Big_int_Z.succ_big_int (Big_int_Z.mult_int_big_int 2 x))
    ((fun x -> Big_int_Z.succ_big_int (Big_int_Z.mult_int_big_int 2 x))
    (Big_int_Z.mult_int_big_int 2 (Big_int_Z.mult_int_big_int 2
    ((fun x -> Big_int_Z.succ_big_int (Big_int_Z.mult_int_big_int 2 x))
    ((fun x -> Big_int_Z.succ_big_int (Big_int_Z.mult_int_big_int 2 x))
    Big_int_Z.unit_big_int)))))) :: (((fun x -> Big_int_Z.succ_big_int (Big_int_Z.mult_int_big_int 2 x))
    (Big_int_Z.mult_int_big_int 2 (Big_int_Z.mult_int_big_int 2
    ((fun x -> Big_int_Z.succ_big_int (Big_int_Z.mult_int_big_int 2 x))
    (Big_int_Z.mult_int_big_int 2
    ((fun x -> Big_int_Z.succ_big_int (Big_int_Z.mult_int_big_int 2 x))
    Big_int_Z.unit_big_int)))))) :: ((Big_int_Z.mult_int_big_int 2
    ((fun x -> Big_int_Z.succ_big_int (Big_int_Z.mult_int_big_int 2 x))
    (Big_int_Z.mult_int_big_int 2
    ((fun x -> Big_int_Z.succ_big_int (Big_int_Z.mult_int_big_int 2 x))
    ((fun x -> Big_int_Z.succ_big_int (Big_int_Z.mult_int_big_int 2 x))
    ((fun x -> Big_int_Z.succ_big_int (Big_int_Z.mult_int_big_int 2 x))
    Big_int_Z.unit_big_int)))))) :: (((fun x -> Big_int_Z.succ_big_int (Big_int_Z.mult_int_big_int 2 x))
    (Big_int_Z.mult_int_big_int 2
    ((fun x -> Big_int_Z.succ_big_int (Big_int_Z.mult_int_big_int 2 x))
    (Big_int_Z.mult_int_big_int 2 (Big_int_Z.mult_int_big_int 2
    ((fun x -> Big_int_Z.succ_big_int (Big_int_Z.mult_int_big_int 2 x))
    Big_int_Z.unit_big_int)))))) :: []))))), Usize) :: []))))))))))

(** val escape_table : (Big_int_Z.big_int * Big_int_Z.big_int) list **)

let escape_table =
  ((Big_int_Z.mult_int_big_int 2
    ((fun x -> Big_int_Z.succ_big_int (Big_int_Z.mult_int_big_int 2 x))
    ((fun x -> Big_int_Z.succ_big_int (Big_int_Z.mult_int_big_int 2 x))
    ((fun x -> Big_int_Z.succ_big_int (Big_int_Z.mult_int_big_int 2 x))
    (Big_int_Z.mult_int_big_int 2
    ((fun x -> Big_int_Z.succ_big_int (Big_int_Z.mult_int_big_int 2 x))
    Big_int_Z.unit_big_int)))))), (Big_int_Z.mult_int_big_int 2
    ((fun x -> Big_int_Z.succ_big_int (Big_int_Z.mult_int_big_int 2 x))
    (Big_int_Z.mult_int_big_int 2
    Big_int_Z.unit_big_int)))) :: (((Big_int_Z.mult_int_big_int 2
    ((fun x -> Big_int_Z.succ_big_int (Big_int_Z.mult_int_big_int 2 x))
    (Big_int_Z.mult_int_big_int 2 (Big_int_Z.mult_int_big_int 2
    ((fun x -> Big_int_Z.succ_big_int (Big_int_Z.mult_int_big_int 2 x))
    ((fun x -> Big_int_Z.succ_big_int (Big_int_Z.mult_int_big_int 2 x))
    Big_int_Z.unit_big_int)))))),
    ((fun x -> Big_int_Z.succ_big_int (Big_int_Z.mult_int_big_int 2 x))
    (Big_int_Z.mult_int_big_int 2
    ((fun x -> Big_int_Z.succ_big_int (Big_int_Z.mult_int_big_int 2 x))
    Big_int_Z.unit_big_int)))) :: (((Big_int_Z.mult_int_big_int 2
    (Big_int_Z.mult_int_big_int 2
    ((fun x -> Big_int_Z.succ_big_int (Big_int_Z.mult_int_big_int 2 x))
    (Big_int_Z.mult_int_big_int 2
    ((fun x -> Big_int_Z.succ_big_int (Big_int_Z.mult_int_big_int 2 x))
    ((fun x -> Big_int_Z.succ_big_int (Big_int_Z.mult_int_big_int 2 x))
    Big_int_Z.unit_big_int)))))),
    ((fun x -> Big_int_Z.succ_big_int (Big_int_Z.mult_int_big_int 2 x))
    (Big_int_Z.mult_int_big_int 2 (Big_int_Z.mult_int_big_int 2
    Big_int_Z.unit_big_int)))) :: (((Big_int_Z.mult_int_big_int 2
    (Big_int_Z.mult_int_big_int 2
    ((fun x -> Big_int_Z.succ_big_int (Big_int_Z.mult_int_big_int 2 x))
    ((fun x -> Big_int_Z.succ_big_int (Big_int_Z.mult_int_big_int 2 x))
    ((fun x -> Big_int_Z.succ_big_int (Big_int_Z.mult_int_big_int 2 x))
    (Big_int_Z.mult_int_big_int 2 Big_int_Z.unit_big_int)))))),
    (Big_int_Z.mult_int_big_int 2 (Big_int_Z.mult_int_big_int 2
    ((fun x -> Big_int_Z.succ_big_int (Big_int_Z.mult_int_big_int 2 x))
    ((fun x -> Big_int_Z.succ_big_int (Big_int_Z.mult_int_big_int 2 x))
    ((fun x -> Big_int_Z.succ_big_int (Big_int_Z.mult_int_big_int 2 x))
    (Big_int_Z.mult_int_big_int 2
    Big_int_Z.unit_big_int))))))) :: ((((fun x -> Big_int_Z.succ_big_int (Big_int_Z.mult_int_big_int 2 x))
    ((fun x -> Big_int_Z.succ_big_int (Big_int_Z.mult_int_big_int 2 x))
    ((fun x -> Big_int_Z.succ_big_int (Big_int_Z.mult_int_big_int 2 x))
    (Big_int_Z.mult_int_big_int 2 (Big_int_Z.mult_int_big_int 2
    Big_int_Z.unit_big_int))))),
    ((fun x -> Big_int_Z.succ_big_int (Big_int_Z.mult_int_big_int 2 x))
    ((fun x -> Big_int_Z.succ_big_int (Big_int_Z.mult_int_big_int 2 x))
    ((fun x -> Big_int_Z.succ_big_int (Big_int_Z.mult_int_big_int 2 x))
    (Big_int_Z.mult_int_big_int 2 (Big_int_Z.mult_int_big_int 2
    Big_int_Z.unit_big_int)))))) :: (((Big_int_Z.mult_int_big_int 2
    ((fun x -> Big_int_Z.succ_big_int (Big_int_Z.mult_int_big_int 2 x))
    (Big_int_Z.mult_int_big_int 2 (Big_int_Z.mult_int_big_int 2
    (Big_int_Z.mult_int_big_int 2 Big_int_Z.unit_big_int))))),
    (Big_int_Z.mult_int_big_int 2
    ((fun x -> Big_int_Z.succ_big_int (Big_int_Z.mult_int_big_int 2 x))
    (Big_int_Z.mult_int_big_int 2 (Big_int_Z.mult_int_big_int 2
    (Big_int_Z.mult_int_big_int 2
    Big_int_Z.unit_big_int)))))) :: (((Big_int_Z.mult_int_big_int 2
    (Big_int_Z.mult_int_big_int 2 (Big_int_Z.mult_int_big_int 2
    (Big_int_Z.mult_int_big_int 2
    ((fun x -> Big_int_Z.succ_big_int (Big_int_Z.mult_int_big_int 2 x))
    Big_int_Z.unit_big_int))))), Big_int_Z.zero_big_int) :: []))))))

(** val str_eqb : Big_int_Z.big_int list -> Big_int_Z.big_int list -> bool **)

let rec str_eqb a b =
  match a with
  | [] -> (match b with
           | [] -> true
           | _ :: _ -> false)
  | x :: a' ->
    (match b with
     | [] -> false
     | y :: b' -> (&&) (N.eqb x y) (str_eqb a' b'))

(** val assoc :
    Big_int_Z.big_int list -> (Big_int_Z.big_int list * 'a1) list -> 'a1
    option **)

let rec assoc k = function
| [] -> None
| p :: t' -> let (k', v) = p in if str_eqb k k' then Some v else assoc k t'

(** val assoc_char :
    Big_int_Z.big_int -> (Big_int_Z.big_int * Big_int_Z.big_int) list ->
    Big_int_Z.big_int option **)

let rec assoc_char k = function
| [] -> None
| p :: t' -> let (k', v) = p in if N.eqb k k' then Some v else assoc_char k t'

(** val len : Big_int_Z.big_int list -> Big_int_Z.big_int **)

let len cs =
  N.of_nat (length cs)

(** val u128_LIMIT : Big_int_Z.big_int **)

let u128_LIMIT =
  Z.pow (Big_int_Z.mult_int_big_int 2 Big_int_Z.unit_big_int)
    (Big_int_Z.mult_int_big_int 2 (Big_int_Z.mult_int_big_int 2
    (Big_int_Z.mult_int_big_int 2 (Big_int_Z.mult_int_big_int 2
    (Big_int_Z.mult_int_big_int 2 (Big_int_Z.mult_int_big_int 2
    (Big_int_Z.mult_int_big_int 2 Big_int_Z.unit_big_int)))))))

(** val u32_LIMIT : Big_int_Z.big_int **)

let u32_LIMIT =
  Z.pow (Big_int_Z.mult_int_big_int 2 Big_int_Z.unit_big_int)
    (Big_int_Z.mult_int_big_int 2 (Big_int_Z.mult_int_big_int 2
    (Big_int_Z.mult_int_big_int 2 (Big_int_Z.mult_int_big_int 2
    (Big_int_Z.mult_int_big_int 2 Big_int_Z.unit_big_int)))))

(** val parse_acc :
    Big_int_Z.big_int -> Big_int_Z.big_int -> Big_int_Z.big_int ->
    Big_int_Z.big_int list -> Big_int_Z.big_int option **)

let rec parse_acc limit radix acc = function
| [] -> Some acc
| d :: r ->
  let m = Z.mul acc radix in
  if Z.leb limit m
  then None
  else let a = Z.add m (digit_val d) in
       if Z.leb limit a then None else parse_acc limit radix a r

(** val from_str_radix :
    Big_int_Z.big_int -> Big_int_Z.big_int -> Big_int_Z.big_int list ->
    Big_int_Z.big_int option **)

let from_str_radix limit radix ds = match ds with
| [] -> None
| _ :: _ -> parse_acc limit radix Big_int_Z.zero_big_int ds

(** val parse_integer_suffix : Big_int_Z.big_int list -> prim option **)

let parse_integer_suffix suffix =
  assoc suffix suffix_table

(** val take_ident :
    Big_int_Z.big_int list -> Big_int_Z.big_int list * Big_int_Z.big_int list **)

let rec take_ident cs = match cs with
| [] -> ([], [])
| y :: r ->
  if is_ident_cont y
  then let (t, r') = take_ident r in ((y :: t), r')
  else ([], cs)

(** val take_digits :
    (Big_int_Z.big_int -> bool) -> Big_int_Z.big_int list ->
    (Big_int_Z.big_int list * Big_int_Z.big_int) * Big_int_Z.big_int list **)

let rec take_digits isd cs = match cs with
| [] -> (([], Big_int_Z.zero_big_int), [])
| y :: r ->
  if isd y
  then let (p, r') = take_digits isd r in
       let (l, k) = p in (((y :: l), (N.add Big_int_Z.unit_big_int k)), r')
  else if N.eqb y
            ((fun x -> Big_int_Z.succ_big_int (Big_int_Z.mult_int_big_int 2 x))
            ((fun x -> Big_int_Z.succ_big_int (Big_int_Z.mult_int_big_int 2 x))
            ((fun x -> Big_int_Z.succ_big_int (Big_int_Z.mult_int_big_int 2 x))
            ((fun x -> Big_int_Z.succ_big_int (Big_int_Z.mult_int_big_int 2 x))
            ((fun x -> Big_int_Z.succ_big_int (Big_int_Z.mult_int_big_int 2 x))
            (Big_int_Z.mult_int_big_int 2 Big_int_Z.unit_big_int))))))
       then let (p, r') = take_digits isd r in
            let (l, k) = p in ((l, (N.add Big_int_Z.unit_big_int k)), r')
       else (([], Big_int_Z.zero_big_int), cs)

(** val take_uhex :
    Big_int_Z.big_int list -> ((Big_int_Z.big_int
    list * bool) * Big_int_Z.big_int) * Big_int_Z.big_int list **)

let rec take_uhex cs = match cs with
| [] -> ((([], false), Big_int_Z.zero_big_int), [])
| y :: r ->
  if is_hex y
  then let (p, r') = take_uhex r in
       let (p0, k) = p in
       let (l, c) = p0 in
       ((((y :: l), c), (N.add Big_int_Z.unit_big_int k)), r')
  else if N.eqb y
            ((fun x -> Big_int_Z.succ_big_int (Big_int_Z.mult_int_big_int 2 x))
            (Big_int_Z.mult_int_big_int 2
            ((fun x -> Big_int_Z.succ_big_int (Big_int_Z.mult_int_big_int 2 x))
            ((fun x -> Big_int_Z.succ_big_int (Big_int_Z.mult_int_big_int 2 x))
            ((fun x -> Big_int_Z.succ_big_int (Big_int_Z.mult_int_big_int 2 x))
            ((fun x -> Big_int_Z.succ_big_int (Big_int_Z.mult_int_big_int 2 x))
            Big_int_Z.unit_big_int))))))
       then ((([], true), Big_int_Z.unit_big_int), r)
       else ((([], false), Big_int_Z.zero_big_int), cs)

type step =
| StEnd
| StSkip
| StTok of tkind * Big_int_Z.big_int * tykw option * Big_int_Z.big_int list
   * Big_int_Z.big_int * Big_int_Z.big_int list
| StStrErr of Big_int_Z.big_int * Big_int_Z.big_int * Big_int_Z.big_int
   * Big_int_Z.big_int * Big_int_Z.big_int * Big_int_Z.big_int
   * Big_int_Z.big_int list

type payload = (tkind * Big_int_Z.big_int) * tykw option

(** val classify_word : Big_int_Z.big_int list -> payload option **)

let classify_word w =
  match assoc w keyword_table with
  | Some k -> Some ((k, Big_int_Z.zero_big_int), None)
  | None ->
    (match assoc w bool_table with
     | Some b -> Some ((KBool, b), None)
     | None ->
       (match assoc w type_table with
        | Some t -> Some ((KType, Big_int_Z.zero_big_int), (Some t))
        | None -> None))

(** val lex_word : Big_int_Z.big_int -> Big_int_Z.big_int list -> step **)

let lex_word x rest =
  let (t, r) = take_ident rest in
  let n0 = N.add Big_int_Z.unit_big_int (len t) in
  (match classify_word (x :: t) with
   | Some p ->
     let (p0, ty) = p in let (k, v) = p0 in StTok (k, v, ty, [], n0, r)
   | None ->
     (match r with
      | [] -> StTok (KIdentifier, Big_int_Z.zero_big_int, None, [], n0, r)
      | y :: r' ->
        if N.eqb y
             ((fun x -> Big_int_Z.succ_big_int (Big_int_Z.mult_int_big_int 2 x))
             (Big_int_Z.mult_int_big_int 2 (Big_int_Z.mult_int_big_int 2
             (Big_int_Z.mult_int_big_int 2 (Big_int_Z.mult_int_big_int 2
             Big_int_Z.unit_big_int)))))
        then StTok (KBuiltin, Big_int_Z.zero_big_int, None, [],
               (N.add n0 Big_int_Z.unit_big_int), r')
        else StTok (KIdentifier, Big_int_Z.zero_big_int, None, [], n0, r)))

(** val is_nil : Big_int_Z.big_int list -> bool **)

let is_nil = function
| [] -> true
| _ :: _ -> false

(** val finish_number :
    bool -> Big_int_Z.big_int option -> Big_int_Z.big_int list ->
    Big_int_Z.big_int list -> payload **)

let finish_number zero_arm value0 literal suffix =
  match value0 with
  | Some v ->
    if (&&)
         ((&&) ((&&) zero_arm (Z.eqb v Big_int_Z.zero_big_int))
           (is_nil literal)) (is_nil suffix)
    then ((KNakedDecimal, Big_int_Z.zero_big_int), None)
    else if is_nil suffix
         then (((if zero_arm then KBitInteger else KNakedDecimal), v), None)
         else (match parse_integer_suffix suffix with
               | Some p -> ((KSuffixedInteger, v), (Some (TyPrim p)))
               | None -> ((KError, e141), None))
  | None -> ((KError, e140), None)

(** val lex_radix :
    (Big_int_Z.big_int -> bool) -> Big_int_Z.big_int -> Big_int_Z.big_int ->
    Big_int_Z.big_int list -> step **)

let lex_radix isd radix pc cs =
  let (p, r2) = take_digits isd cs in
  let (lit, k) = p in
  let (suf, r3) = take_ident r2 in
  (match from_str_radix u128_LIMIT radix lit with
   | Some v ->
     let value0 = Some v in
     let (p0, ty) = finish_number true value0 lit suf in
     let (kd, v0) = p0 in
     StTok (kd, v0, ty, [],
     (N.add (N.add (Big_int_Z.mult_int_big_int 2 Big_int_Z.unit_big_int) k)
       (len suf)), r3)
   | None ->
     if is_nil lit
     then let value0 = Some Big_int_Z.zero_big_int in
          let suffix = pc :: suf in
          let (p0, ty) = finish_number true value0 lit suffix in
          let (kd, v) = p0 in
          StTok (kd, v, ty, [],
          (N.add
            (N.add (Big_int_Z.mult_int_big_int 2 Big_int_Z.unit_big_int) k)
            (len suf)), r3)
     else let value0 = None in
          let (p0, ty) = finish_number true value0 lit suf in
          let (kd, v) = p0 in
          StTok (kd, v, ty, [],
          (N.add
            (N.add (Big_int_Z.mult_int_big_int 2 Big_int_Z.unit_big_int) k)
            (len suf)), r3))

(** val lex_zero : Big_int_Z.big_int list -> step **)

let lex_zero rest =
  let plain =
    let (suf, r) = take_ident rest in
    let (p, ty) = finish_number true (Some Big_int_Z.zero_big_int) [] suf in
    let (kd, v) = p in
    StTok (kd, v, ty, [], (N.add Big_int_Z.unit_big_int (len suf)), r)
  in
  (match rest with
   | [] -> plain
   | y :: r1 ->
     if N.eqb y (Big_int_Z.mult_int_big_int 2 (Big_int_Z.mult_int_big_int 2
          (Big_int_Z.mult_int_big_int 2
          ((fun x -> Big_int_Z.succ_big_int (Big_int_Z.mult_int_big_int 2 x))
          ((fun x -> Big_int_Z.succ_big_int (Big_int_Z.mult_int_big_int 2 x))
          ((fun x -> Big_int_Z.succ_big_int (Big_int_Z.mult_int_big_int 2 x))
          Big_int_Z.unit_big_int))))))
     then lex_radix is_hex (Big_int_Z.mult_int_big_int 2
            (Big_int_Z.mult_int_big_int 2 (Big_int_Z.mult_int_big_int 2
            (Big_int_Z.mult_int_big_int 2 Big_int_Z.unit_big_int))))
            (Big_int_Z.mult_int_big_int 2 (Big_int_Z.mult_int_big_int 2
            (Big_int_Z.mult_int_big_int 2
            ((fun x -> Big_int_Z.succ_big_int (Big_int_Z.mult_int_big_int 2 x))
            ((fun x -> Big_int_Z.succ_big_int (Big_int_Z.mult_int_big_int 2 x))
            ((fun x -> Big_int_Z.succ_big_int (Big_int_Z.mult_int_big_int 2 x))
            Big_int_Z.unit_big_int)))))) r1
     else if N.eqb y (Big_int_Z.mult_int_big_int 2
               ((fun x -> Big_int_Z.succ_big_int (Big_int_Z.mult_int_big_int 2 x))
               (Big_int_Z.mult_int_big_int 2 (Big_int_Z.mult_int_big_int 2
               (Big_int_Z.mult_int_big_int 2
               ((fun x -> Big_int_Z.succ_big_int (Big_int_Z.mult_int_big_int 2 x))
               Big_int_Z.unit_big_int))))))
          then lex_radix is_bin (Big_int_Z.mult_int_big_int 2
                 Big_int_Z.unit_big_int) (Big_int_Z.mult_int_big_int 2
                 ((fun x -> Big_int_Z.succ_big_int (Big_int_Z.mult_int_big_int 2 x))
                 (Big_int_Z.mult_int_big_int 2 (Big_int_Z.mult_int_big_int 2
                 (Big_int_Z.mult_int_big_int 2
                 ((fun x -> Big_int_Z.succ_big_int (Big_int_Z.mult_int_big_int 2 x))
                 Big_int_Z.unit_big_int)))))) r1
          else plain)

(** val lex_decimal : Big_int_Z.big_int -> Big_int_Z.big_int list -> step **)

let lex_decimal x rest =
  let (p, r2) = take_digits is_dec rest in
  let (lit, k) = p in
  let (suf, r3) = take_ident r2 in
  let (p0, ty) =
    finish_number false
      (from_str_radix u128_LIMIT (Big_int_Z.mult_int_big_int 2
        ((fun x -> Big_int_Z.succ_big_int (Big_int_Z.mult_int_big_int 2 x))
        (Big_int_Z.mult_int_big_int 2 Big_int_Z.unit_big_int))) (x :: lit))
      (x :: lit) suf
  in
  let (kd, v) = p0 in
  StTok (kd, v, ty, [], (N.add (N.add Big_int_Z.unit_big_int k) (len suf)),
  r3)

(** val utf8 : Big_int_Z.big_int -> Big_int_Z.big_int list **)

let utf8 c =
  if N.ltb c (Big_int_Z.mult_int_big_int 2 (Big_int_Z.mult_int_big_int 2
       (Big_int_Z.mult_int_big_int 2 (Big_int_Z.mult_int_big_int 2
       (Big_int_Z.mult_int_big_int 2 (Big_int_Z.mult_int_big_int 2
       (Big_int_Z.mult_int_big_int 2 Big_int_Z.unit_big_int)))))))
  then c :: []
  else if N.ltb c (Big_int_Z.mult_int_big_int 2 (Big_int_Z.mult_int_big_int 2
            (Big_int_Z.mult_int_big_int 2 (Big_int_Z.mult_int_big_int 2
            (Big_int_Z.mult_int_big_int 2 (Big_int_Z.mult_int_big_int 2
            (Big_int_Z.mult_int_big_int 2 (Big_int_Z.mult_int_big_int 2
            (Big_int_Z.mult_int_big_int 2 (Big_int_Z.mult_int_big_int 2
            (Big_int_Z.mult_int_big_int 2 Big_int_Z.unit_big_int)))))))))))
       then (N.add (Big_int_Z.mult_int_big_int 2
              (Big_int_Z.mult_int_big_int 2 (Big_int_Z.mult_int_big_int 2
              (Big_int_Z.mult_int_big_int 2 (Big_int_Z.mult_int_big_int 2
              (Big_int_Z.mult_int_big_int 2
              ((fun x -> Big_int_Z.succ_big_int (Big_int_Z.mult_int_big_int 2 x))
              Big_int_Z.unit_big_int)))))))
              (N.div c (Big_int_Z.mult_int_big_int 2
                (Big_int_Z.mult_int_big_int 2 (Big_int_Z.mult_int_big_int 2
                (Big_int_Z.mult_int_big_int 2 (Big_int_Z.mult_int_big_int 2
                (Big_int_Z.mult_int_big_int 2 Big_int_Z.unit_big_int)))))))) :: (
              (N.add (Big_int_Z.mult_int_big_int 2
                (Big_int_Z.mult_int_big_int 2 (Big_int_Z.mult_int_big_int 2
                (Big_int_Z.mult_int_big_int 2 (Big_int_Z.mult_int_big_int 2
                (Big_int_Z.mult_int_big_int 2 (Big_int_Z.mult_int_big_int 2
                Big_int_Z.unit_big_int)))))))
                (N.modulo c (Big_int_Z.mult_int_big_int 2
                  (Big_int_Z.mult_int_big_int 2 (Big_int_Z.mult_int_big_int 2
                  (Big_int_Z.mult_int_big_int 2 (Big_int_Z.mult_int_big_int 2
                  (Big_int_Z.mult_int_big_int 2 Big_int_Z.unit_big_int)))))))) :: [])
       else if N.ltb c (Big_int_Z.mult_int_big_int 2
                 (Big_int_Z.mult_int_big_int 2 (Big_int_Z.mult_int_big_int 2
                 (Big_int_Z.mult_int_big_int 2 (Big_int_Z.mult_int_big_int 2
                 (Big_int_Z.mult_int_big_int 2 (Big_int_Z.mult_int_big_int 2
                 (Big_int_Z.mult_int_big_int 2 (Big_int_Z.mult_int_big_int 2
                 (Big_int_Z.mult_int_big_int 2 (Big_int_Z.mult_int_big_int 2
                 (Big_int_Z.mult_int_big_int 2 (Big_int_Z.mult_int_big_int 2
                 (Big_int_Z.mult_int_big_int 2 (Big_int_Z.mult_int_big_int 2
                 (Big_int_Z.mult_int_big_int 2
                 Big_int_Z.unit_big_int))))))))))))))))
            then (N.add (Big_int_Z.mult_int_big_int 2
                   (Big_int_Z.mult_int_big_int 2
                   (Big_int_Z.mult_int_big_int 2
                   (Big_int_Z.mult_int_big_int 2
                   (Big_int_Z.mult_int_big_int 2
                   ((fun x -> Big_int_Z.succ_big_int (Big_int_Z.mult_int_big_int 2 x))
                   ((fun x -> Big_int_Z.succ_big_int (Big_int_Z.mult_int_big_int 2 x))
                   Big_int_Z.unit_big_int)))))))
                   (N.div c (Big_int_Z.mult_int_big_int 2
                     (Big_int_Z.mult_int_big_int 2
                     (Big_int_Z.mult_int_big_int 2
                     (Big_int_Z.mult_int_big_int 2
                     (Big_int_Z.mult_int_big_int 2
                     (Big_int_Z.mult_int_big_int 2
                     (Big_int_Z.mult_int_big_int 2
                     (Big_int_Z.mult_int_big_int 2
                     (Big_int_Z.mult_int_big_int 2
                     (Big_int_Z.mult_int_big_int 2
                     (Big_int_Z.mult_int_big_int 2
                     (Big_int_Z.mult_int_big_int 2
                     Big_int_Z.unit_big_int)))))))))))))) :: ((N.add
                                                                (Big_int_Z.mult_int_big_int 2
                                                                (Big_int_Z.mult_int_big_int 2
                                                                (Big_int_Z.mult_int_big_int 2
                                                                (Big_int_Z.mult_int_big_int 2
                                                                (Big_int_Z.mult_int_big_int 2
                                                                (Big_int_Z.mult_int_big_int 2
                                                                (Big_int_Z.mult_int_big_int 2
                                                                Big_int_Z.unit_big_int)))))))
                                                                (N.modulo
                                                                  (N.div c
                                                                    (Big_int_Z.mult_int_big_int 2
                                                                    (Big_int_Z.mult_int_big_int 2
                                                                    (Big_int_Z.mult_int_big_int 2
                                                                    (Big_int_Z.mult_int_big_int 2
                                                                    (Big_int_Z.mult_int_big_int 2
                                                                    (Big_int_Z.mult_int_big_int 2
                                                                    Big_int_Z.unit_big_int)))))))
                                                                  (Big_int_Z.mult_int_big_int 2
                                                                  (Big_int_Z.mult_int_big_int 2
                                                                  (Big_int_Z.mult_int_big_int 2
                                                                  (Big_int_Z.mult_int_big_int 2
                                                                  (Big_int_Z.mult_int_big_int 2
                                                                  (Big_int_Z.mult_int_big_int 2
                                                                  Big_int_Z.unit_big_int)))))))) :: (
                   (N.add (Big_int_Z.mult_int_big_int 2
                     (Big_int_Z.mult_int_big_int 2
                     (Big_int_Z.mult_int_big_int 2
                     (Big_int_Z.mult_int_big_int 2
                     (Big_int_Z.mult_int_big_int 2
                     (Big_int_Z.mult_int_big_int 2
                     (Big_int_Z.mult_int_big_int 2
                     Big_int_Z.unit_big_int)))))))
                     (N.modulo c (Big_int_Z.mult_int_big_int 2
                       (Big_int_Z.mult_int_big_int 2
                       (Big_int_Z.mult_int_big_int 2
                       (Big_int_Z.mult_int_big_int 2
                       (Big_int_Z.mult_int_big_int 2
                       (Big_int_Z.mult_int_big_int 2
                       Big_int_Z.unit_big_int)))))))) :: []))
            else (N.add (Big_int_Z.mult_int_big_int 2
                   (Big_int_Z.mult_int_big_int 2
                   (Big_int_Z.mult_int_big_int 2
                   (Big_int_Z.mult_int_big_int 2
                   ((fun x -> Big_int_Z.succ_big_int (Big_int_Z.mult_int_big_int 2 x))
                   ((fun x -> Big_int_Z.succ_big_int (Big_int_Z.mult_int_big_int 2 x))
                   ((fun x -> Big_int_Z.succ_big_int (Big_int_Z.mult_int_big_int 2 x))
                   Big_int_Z.unit_big_int)))))))
                   (N.div c (Big_int_Z.mult_int_big_int 2
                     (Big_int_Z.mult_int_big_int 2
                     (Big_int_Z.mult_int_big_int 2
                     (Big_int_Z.mult_int_big_int 2
                     (Big_int_Z.mult_int_big_int 2
                     (Big_int_Z.mult_int_big_int 2
                     (Big_int_Z.mult_int_big_int 2
                     (Big_int_Z.mult_int_big_int 2
                     (Big_int_Z.mult_int_big_int 2
                     (Big_int_Z.mult_int_big_int 2
                     (Big_int_Z.mult_int_big_int 2
                     (Big_int_Z.mult_int_big_int 2
                     (Big_int_Z.mult_int_big_int 2
                     (Big_int_Z.mult_int_big_int 2
                     (Big_int_Z.mult_int_big_int 2
                     (Big_int_Z.mult_int_big_int 2
                     (Big_int_Z.mult_int_big_int 2
                     (Big_int_Z.mult_int_big_int 2
                     Big_int_Z.unit_big_int)))))))))))))))))))) :: ((N.add
                                                                    (Big_int_Z.mult_int_big_int 2
                                                                    (Big_int_Z.mult_int_big_int 2
                                                                    (Big_int_Z.mult_int_big_int 2
                                                                    (Big_int_Z.mult_int_big_int 2
                                                                    (Big_int_Z.mult_int_big_int 2
                                                                    (Big_int_Z.mult_int_big_int 2
                                                                    (Big_int_Z.mult_int_big_int 2
                                                                    Big_int_Z.unit_big_int)))))))
                                                                    (N.modulo
                                                                    (N.div c
                                                                    (Big_int_Z.mult_int_big_int 2
                                                                    (Big_int_Z.mult_int_big_int 2
                                                                    (Big_int_Z.mult_int_big_int 2
                                                                    (Big_int_Z.mult_int_big_int 2
                                                                    (Big_int_Z.mult_int_big_int 2
                                                                    (Big_int_Z.mult_int_big_int 2
                                                                    (Big_int_Z.mult_int_big_int 2
                                                                    (Big_int_Z.mult_int_big_int 2
                                                                    (Big_int_Z.mult_int_big_int 2
                                                                    (Big_int_Z.mult_int_big_int 2
                                                                    (Big_int_Z.mult_int_big_int 2
                                                                    (Big_int_Z.mult_int_big_int 2
                                                                    Big_int_Z.unit_big_int)))))))))))))
                                                                    (Big_int_Z.mult_int_big_int 2
                                                                    (Big_int_Z.mult_int_big_int 2
                                                                    (Big_int_Z.mult_int_big_int 2
                                                                    (Big_int_Z.mult_int_big_int 2
                                                                    (Big_int_Z.mult_int_big_int 2
                                                                    (Big_int_Z.mult_int_big_int 2
                                                                    Big_int_Z.unit_big_int)))))))) :: (
                   (N.add (Big_int_Z.mult_int_big_int 2
                     (Big_int_Z.mult_int_big_int 2
                     (Big_int_Z.mult_int_big_int 2
                     (Big_int_Z.mult_int_big_int 2
                     (Big_int_Z.mult_int_big_int 2
                     (Big_int_Z.mult_int_big_int 2
                     (Big_int_Z.mult_int_big_int 2
                     Big_int_Z.unit_big_int)))))))
                     (N.modulo
                       (N.div c (Big_int_Z.mult_int_big_int 2
                         (Big_int_Z.mult_int_big_int 2
                         (Big_int_Z.mult_int_big_int 2
                         (Big_int_Z.mult_int_big_int 2
                         (Big_int_Z.mult_int_big_int 2
                         (Big_int_Z.mult_int_big_int 2
                         Big_int_Z.unit_big_int)))))))
                       (Big_int_Z.mult_int_big_int 2
                       (Big_int_Z.mult_int_big_int 2
                       (Big_int_Z.mult_int_big_int 2
                       (Big_int_Z.mult_int_big_int 2
                       (Big_int_Z.mult_int_big_int 2
                       (Big_int_Z.mult_int_big_int 2
                       Big_int_Z.unit_big_int)))))))) :: ((N.add
                                                            (Big_int_Z.mult_int_big_int 2
                                                            (Big_int_Z.mult_int_big_int 2
                                                            (Big_int_Z.mult_int_big_int 2
                                                            (Big_int_Z.mult_int_big_int 2
                                                            (Big_int_Z.mult_int_big_int 2
                                                            (Big_int_Z.mult_int_big_int 2
                                                            (Big_int_Z.mult_int_big_int 2
                                                            Big_int_Z.unit_big_int)))))))
                                                            (N.modulo c
                                                              (Big_int_Z.mult_int_big_int 2
                                                              (Big_int_Z.mult_int_big_int 2
                                                              (Big_int_Z.mult_int_big_int 2
                                                              (Big_int_Z.mult_int_big_int 2
                                                              (Big_int_Z.mult_int_big_int 2
                                                              (Big_int_Z.mult_int_big_int 2
                                                              Big_int_Z.unit_big_int)))))))) :: [])))

(** val is_scalar : Big_int_Z.big_int -> bool **)

let is_scalar v =
  (||)
    (Z.ltb v (Big_int_Z.mult_int_big_int 2 (Big_int_Z.mult_int_big_int 2
      (Big_int_Z.mult_int_big_int 2 (Big_int_Z.mult_int_big_int 2
      (Big_int_Z.mult_int_big_int 2 (Big_int_Z.mult_int_big_int 2
      (Big_int_Z.mult_int_big_int 2 (Big_int_Z.mult_int_big_int 2
      (Big_int_Z.mult_int_big_int 2 (Big_int_Z.mult_int_big_int 2
      (Big_int_Z.mult_int_big_int 2
      ((fun x -> Big_int_Z.succ_big_int (Big_int_Z.mult_int_big_int 2 x))
      ((fun x -> Big_int_Z.succ_big_int (Big_int_Z.mult_int_big_int 2 x))
      (Big_int_Z.mult_int_big_int 2
      ((fun x -> Big_int_Z.succ_big_int (Big_int_Z.mult_int_big_int 2 x))
      Big_int_Z.unit_big_int))))))))))))))))
    ((&&)
      (Z.leb (Big_int_Z.mult_int_big_int 2 (Big_int_Z.mult_int_big_int 2
        (Big_int_Z.mult_int_big_int 2 (Big_int_Z.mult_int_big_int 2
        (Big_int_Z.mult_int_big_int 2 (Big_int_Z.mult_int_big_int 2
        (Big_int_Z.mult_int_big_int 2 (Big_int_Z.mult_int_big_int 2
        (Big_int_Z.mult_int_big_int 2 (Big_int_Z.mult_int_big_int 2
        (Big_int_Z.mult_int_big_int 2 (Big_int_Z.mult_int_big_int 2
        (Big_int_Z.mult_int_big_int 2
        ((fun x -> Big_int_Z.succ_big_int (Big_int_Z.mult_int_big_int 2 x))
        ((fun x -> Big_int_Z.succ_big_int (Big_int_Z.mult_int_big_int 2 x))
        Big_int_Z.unit_big_int))))))))))))))) v)
      (Z.ltb v (Big_int_Z.mult_int_big_int 2 (Big_int_Z.mult_int_big_int 2
        (Big_int_Z.mult_int_big_int 2 (Big_int_Z.mult_int_big_int 2
        (Big_int_Z.mult_int_big_int 2 (Big_int_Z.mult_int_big_int 2
        (Big_int_Z.mult_int_big_int 2 (Big_int_Z.mult_int_big_int 2
        (Big_int_Z.mult_int_big_int 2 (Big_int_Z.mult_int_big_int 2
        (Big_int_Z.mult_int_big_int 2 (Big_int_Z.mult_int_big_int 2
        (Big_int_Z.mult_int_big_int 2 (Big_int_Z.mult_int_big_int 2
        (Big_int_Z.mult_int_big_int 2 (Big_int_Z.mult_int_big_int 2
        ((fun x -> Big_int_Z.succ_big_int (Big_int_Z.mult_int_big_int 2 x))
        (Big_int_Z.mult_int_big_int 2 (Big_int_Z.mult_int_big_int 2
        (Big_int_Z.mult_int_big_int 2
        Big_int_Z.unit_big_int))))))))))))))))))))))

(** val parse_unicode : Big_int_Z.big_int list -> Big_int_Z.big_int option **)

let parse_unicode lit =
  match from_str_radix u32_LIMIT (Big_int_Z.mult_int_big_int 2
          (Big_int_Z.mult_int_big_int 2 (Big_int_Z.mult_int_big_int 2
          (Big_int_Z.mult_int_big_int 2 Big_int_Z.unit_big_int)))) lit with
  | Some v -> if is_scalar v then Some (Z.to_N v) else None
  | None -> None

(** val esc_step :
    Big_int_Z.big_int list -> (((Big_int_Z.big_int list * Big_int_Z.big_int
    option) * Big_int_Z.big_int) * Big_int_Z.big_int) * Big_int_Z.big_int list **)

let esc_step = function
| [] ->
  (((([], (Some e161)), (Big_int_Z.mult_int_big_int 2
    Big_int_Z.unit_big_int)), Big_int_Z.zero_big_int), [])
| c :: r ->
  (match assoc_char c escape_table with
   | Some b ->
     (((((b :: []), None), (Big_int_Z.mult_int_big_int 2
       Big_int_Z.unit_big_int)), Big_int_Z.unit_big_int), r)
   | None ->
     if N.eqb c (Big_int_Z.mult_int_big_int 2 (Big_int_Z.mult_int_big_int 2
          (Big_int_Z.mult_int_big_int 2
          ((fun x -> Big_int_Z.succ_big_int (Big_int_Z.mult_int_big_int 2 x))
          ((fun x -> Big_int_Z.succ_big_int (Big_int_Z.mult_int_big_int 2 x))
          ((fun x -> Big_int_Z.succ_big_int (Big_int_Z.mult_int_big_int 2 x))
          Big_int_Z.unit_big_int))))))
     then (match r with
           | [] ->
             (((([], (Some e162)), (Big_int_Z.mult_int_big_int 2
               Big_int_Z.unit_big_int)), Big_int_Z.unit_big_int), r)
           | d1 :: r1 ->
             if is_hex d1
             then (match r1 with
                   | [] ->
                     (((([], (Some e162)),
                       ((fun x -> Big_int_Z.succ_big_int (Big_int_Z.mult_int_big_int 2 x))
                       Big_int_Z.unit_big_int)),
                       (Big_int_Z.mult_int_big_int 2
                       Big_int_Z.unit_big_int)), r1)
                   | d2 :: r2 ->
                     if is_hex d2
                     then ((((((Z.to_N
                                 (Z.add
                                   (Z.mul (digit_val d1)
                                     (Big_int_Z.mult_int_big_int 2
                                     (Big_int_Z.mult_int_big_int 2
                                     (Big_int_Z.mult_int_big_int 2
                                     (Big_int_Z.mult_int_big_int 2
                                     Big_int_Z.unit_big_int)))))
                                   (digit_val d2))) :: []), None),
                            (Big_int_Z.mult_int_big_int 2
                            (Big_int_Z.mult_int_big_int 2
                            Big_int_Z.unit_big_int))),
                            ((fun x -> Big_int_Z.succ_big_int (Big_int_Z.mult_int_big_int 2 x))
                            Big_int_Z.unit_big_int)), r2)
                     else (((([], (Some e162)),
                            ((fun x -> Big_int_Z.succ_big_int (Big_int_Z.mult_int_big_int 2 x))
                            Big_int_Z.unit_big_int)),
                            (Big_int_Z.mult_int_big_int 2
                            Big_int_Z.unit_big_int)), r1))
             else (((([], (Some e162)), (Big_int_Z.mult_int_big_int 2
                    Big_int_Z.unit_big_int)), Big_int_Z.unit_big_int), r))
     else if N.eqb c
               ((fun x -> Big_int_Z.succ_big_int (Big_int_Z.mult_int_big_int 2 x))
               (Big_int_Z.mult_int_big_int 2
               ((fun x -> Big_int_Z.succ_big_int (Big_int_Z.mult_int_big_int 2 x))
               (Big_int_Z.mult_int_big_int 2
               ((fun x -> Big_int_Z.succ_big_int (Big_int_Z.mult_int_big_int 2 x))
               ((fun x -> Big_int_Z.succ_big_int (Big_int_Z.mult_int_big_int 2 x))
               Big_int_Z.unit_big_int))))))
          then (match r with
                | [] ->
                  (((([], (Some e162)), (Big_int_Z.mult_int_big_int 2
                    Big_int_Z.unit_big_int)), Big_int_Z.unit_big_int), r)
                | o :: r1 ->
                  if N.eqb o
                       ((fun x -> Big_int_Z.succ_big_int (Big_int_Z.mult_int_big_int 2 x))
                       ((fun x -> Big_int_Z.succ_big_int (Big_int_Z.mult_int_big_int 2 x))
                       (Big_int_Z.mult_int_big_int 2
                       ((fun x -> Big_int_Z.succ_big_int (Big_int_Z.mult_int_big_int 2 x))
                       ((fun x -> Big_int_Z.succ_big_int (Big_int_Z.mult_int_big_int 2 x))
                       ((fun x -> Big_int_Z.succ_big_int (Big_int_Z.mult_int_big_int 2 x))
                       Big_int_Z.unit_big_int))))))
                  then let (p, r2) = take_uhex r1 in
                       let (p0, k) = p in
                       let (lit, closed) = p0 in
                       (match parse_unicode (if closed then lit else []) with
                        | Some u ->
                          (((((utf8 u), None),
                            (N.add
                              ((fun x -> Big_int_Z.succ_big_int (Big_int_Z.mult_int_big_int 2 x))
                              Big_int_Z.unit_big_int) k)),
                            (N.add (Big_int_Z.mult_int_big_int 2
                              Big_int_Z.unit_big_int) k)), r2)
                        | None ->
                          (((([], (Some e162)),
                            (N.add
                              ((fun x -> Big_int_Z.succ_big_int (Big_int_Z.mult_int_big_int 2 x))
                              Big_int_Z.unit_big_int) k)),
                            (N.add (Big_int_Z.mult_int_big_int 2
                              Big_int_Z.unit_big_int) k)), r2))
                  else (((([], (Some e162)), (Big_int_Z.mult_int_big_int 2
                         Big_int_Z.unit_big_int)), Big_int_Z.unit_big_int), r))
          else (((([], (Some e162)), (Big_int_Z.mult_int_big_int 2
                 Big_int_Z.unit_big_int)), Big_int_Z.unit_big_int), r))

type strerr =
  ((Big_int_Z.big_int * Big_int_Z.big_int) * Big_int_Z.big_int) * Big_int_Z.big_int

type strres = { sr_bytes : Big_int_Z.big_int list; sr_closed : bool;
                sr_err : strerr option; sr_soe : Big_int_Z.big_int;
                sr_eolo : Big_int_Z.big_int; sr_chars : Big_int_Z.big_int;
                sr_rest : Big_int_Z.big_int list }

(** val oOF : Big_int_Z.big_int **)

let oOF =
  Big_int_Z.minus_big_int Big_int_Z.unit_big_int

(** val sr_cons :
    Big_int_Z.big_int list -> strerr option -> Big_int_Z.big_int -> strres ->
    strres **)

let sr_cons bs er k res =
  { sr_bytes = (app bs res.sr_bytes); sr_closed = res.sr_closed; sr_err =
    (match er with
     | Some e -> Some e
     | None -> res.sr_err); sr_soe = res.sr_soe; sr_eolo = res.sr_eolo;
    sr_chars = (N.add k res.sr_chars); sr_rest = res.sr_rest }

(** val str_loop :
    nat -> Big_int_Z.big_int -> Big_int_Z.big_int -> Big_int_Z.big_int ->
    Big_int_Z.big_int list -> strres **)

let rec str_loop fuel q p e cs = match cs with
| [] ->
  { sr_bytes = []; sr_closed = false; sr_err = None; sr_soe = p; sr_eolo = e;
    sr_chars = Big_int_Z.zero_big_int; sr_rest = [] }
| x :: r ->
  (match fuel with
   | O ->
     { sr_bytes = []; sr_closed = false; sr_err = (Some (((oOF, p), p), e));
       sr_soe = p; sr_eolo = e; sr_chars = Big_int_Z.zero_big_int; sr_rest =
       cs }
   | S f ->
     if N.eqb x (Big_int_Z.mult_int_big_int 2 (Big_int_Z.mult_int_big_int 2
          ((fun x -> Big_int_Z.succ_big_int (Big_int_Z.mult_int_big_int 2 x))
          ((fun x -> Big_int_Z.succ_big_int (Big_int_Z.mult_int_big_int 2 x))
          ((fun x -> Big_int_Z.succ_big_int (Big_int_Z.mult_int_big_int 2 x))
          (Big_int_Z.mult_int_big_int 2 Big_int_Z.unit_big_int))))))
     then let (p0, r') = esc_step r in
          let (p1, m) = p0 in
          let (p2, adv) = p1 in
          let (bs, er) = p2 in
          sr_cons bs
            (match er with
             | Some c ->
               Some (((c, p), (N.add p adv)),
                 (N.add p Big_int_Z.unit_big_int))
             | None -> None) (N.add Big_int_Z.unit_big_int m)
            (str_loop f q (N.add p adv) (N.add p Big_int_Z.unit_big_int) r')
     else if N.eqb x q
          then { sr_bytes = []; sr_closed = true; sr_err = None; sr_soe =
                 (N.add p Big_int_Z.unit_big_int); sr_eolo =
                 (N.add p Big_int_Z.unit_big_int); sr_chars =
                 Big_int_Z.unit_big_int; sr_rest = r }
          else if N.eqb x (Big_int_Z.mult_int_big_int 2
                    (Big_int_Z.mult_int_big_int 2
                    (Big_int_Z.mult_int_big_int 2
                    (Big_int_Z.mult_int_big_int 2
                    (Big_int_Z.mult_int_big_int 2 Big_int_Z.unit_big_int)))))
               then sr_cons ((Big_int_Z.mult_int_big_int 2
                      (Big_int_Z.mult_int_big_int 2
                      (Big_int_Z.mult_int_big_int 2
                      (Big_int_Z.mult_int_big_int 2
                      (Big_int_Z.mult_int_big_int 2
                      Big_int_Z.unit_big_int))))) :: []) None
                      Big_int_Z.unit_big_int
                      (str_loop f q (N.add p Big_int_Z.unit_big_int)
                        (N.add p Big_int_Z.unit_big_int) r)
               else if is_ascii_graphic x
                    then sr_cons (x :: []) None Big_int_Z.unit_big_int
                           (str_loop f q (N.add p Big_int_Z.unit_big_int)
                             (N.add p Big_int_Z.unit_big_int) r)
                    else if is_ascii x
                         then sr_cons [] (Some (((e110, p),
                                (N.add p Big_int_Z.unit_big_int)),
                                (N.add p Big_int_Z.unit_big_int)))
                                Big_int_Z.unit_big_int
                                (str_loop f q
                                  (N.add p Big_int_Z.unit_big_int)
                                  (N.add p Big_int_Z.unit_big_int) r)
                         else sr_cons (utf8 x) None Big_int_Z.unit_big_int
                                (str_loop f q
                                  (N.add p Big_int_Z.unit_big_int)
                                  (N.add p Big_int_Z.unit_big_int) r))

(** val lex_quote : Big_int_Z.big_int -> Big_int_Z.big_int list -> step **)

let lex_quote q rest =
  let res =
    str_loop (length rest) q Big_int_Z.unit_big_int Big_int_Z.unit_big_int
      rest
  in
  let first_error =
    match res.sr_err with
    | Some e -> Some e
    | None ->
      if res.sr_closed
      then None
      else Some (((e160, Big_int_Z.zero_big_int), res.sr_soe), res.sr_eolo)
  in
  (match first_error with
   | Some s ->
     let (p, eo) = s in
     let (p0, ee) = p in
     let (c, es) = p0 in
     StStrErr (c, es, ee, eo, res.sr_soe,
     (N.add Big_int_Z.unit_big_int res.sr_chars), res.sr_rest)
   | None ->
     if N.eqb q (Big_int_Z.mult_int_big_int 2
          ((fun x -> Big_int_Z.succ_big_int (Big_int_Z.mult_int_big_int 2 x))
          (Big_int_Z.mult_int_big_int 2 (Big_int_Z.mult_int_big_int 2
          (Big_int_Z.mult_int_big_int 2 Big_int_Z.unit_big_int)))))
     then StTok (KStringLiteral, Big_int_Z.zero_big_int, None, res.sr_bytes,
            res.sr_soe, res.sr_rest)
     else (match res.sr_bytes with
           | [] -> StTok (KError, e163, None, [], res.sr_soe, res.sr_rest)
           | b :: l ->
             (match l with
              | [] ->
                StTok (KCharLiteral, (Z.of_N b), None, [], res.sr_soe,
                  res.sr_rest)
              | _ :: _ ->
                StTok (KError, e163, None, [], res.sr_soe, res.sr_rest))))

(** val single : tkind -> Big_int_Z.big_int list -> step **)

let single k rest =
  StTok (k, Big_int_Z.zero_big_int, None, [], Big_int_Z.unit_big_int, rest)

(** val double0 :
    Big_int_Z.big_int -> tkind -> tkind -> Big_int_Z.big_int list -> step **)

let double0 y k2 k1 rest = match rest with
| [] -> single k1 rest
| z0 :: r ->
  if N.eqb z0 y
  then StTok (k2, Big_int_Z.zero_big_int, None, [],
         (Big_int_Z.mult_int_big_int 2 Big_int_Z.unit_big_int), r)
  else single k1 rest

(** val lex_step : Big_int_Z.big_int -> Big_int_Z.big_int list -> step **)

let lex_step x rest =
  if N.eqb x (Big_int_Z.mult_int_big_int 2 (Big_int_Z.mult_int_big_int 2
       (Big_int_Z.mult_int_big_int 2
       ((fun x -> Big_int_Z.succ_big_int (Big_int_Z.mult_int_big_int 2 x))
       (Big_int_Z.mult_int_big_int 2 Big_int_Z.unit_big_int)))))
  then single KParenLeft rest
  else if N.eqb x
            ((fun x -> Big_int_Z.succ_big_int (Big_int_Z.mult_int_big_int 2 x))
            (Big_int_Z.mult_int_big_int 2 (Big_int_Z.mult_int_big_int 2
            ((fun x -> Big_int_Z.succ_big_int (Big_int_Z.mult_int_big_int 2 x))
            (Big_int_Z.mult_int_big_int 2 Big_int_Z.unit_big_int)))))
       then single KParenRight rest
       else if N.eqb x
                 ((fun x -> Big_int_Z.succ_big_int (Big_int_Z.mult_int_big_int 2 x))
                 ((fun x -> Big_int_Z.succ_big_int (Big_int_Z.mult_int_big_int 2 x))
                 (Big_int_Z.mult_int_big_int 2
                 ((fun x -> Big_int_Z.succ_big_int (Big_int_Z.mult_int_big_int 2 x))
                 ((fun x -> Big_int_Z.succ_big_int (Big_int_Z.mult_int_big_int 2 x))
                 ((fun x -> Big_int_Z.succ_big_int (Big_int_Z.mult_int_big_int 2 x))
                 Big_int_Z.unit_big_int))))))
            then single KBraceLeft rest
            else if N.eqb x
                      ((fun x -> Big_int_Z.succ_big_int (Big_int_Z.mult_int_big_int 2 x))
                      (Big_int_Z.mult_int_big_int 2
                      ((fun x -> Big_int_Z.succ_big_int (Big_int_Z.mult_int_big_int 2 x))
                      ((fun x -> Big_int_Z.succ_big_int (Big_int_Z.mult_int_big_int 2 x))
                      ((fun x -> Big_int_Z.succ_big_int (Big_int_Z.mult_int_big_int 2 x))
                      ((fun x -> Big_int_Z.succ_big_int (Big_int_Z.mult_int_big_int 2 x))
                      Big_int_Z.unit_big_int))))))
                 then single KBraceRight rest
                 else if N.eqb x
                           ((fun x -> Big_int_Z.succ_big_int (Big_int_Z.mult_int_big_int 2 x))
                           ((fun x -> Big_int_Z.succ_big_int (Big_int_Z.mult_int_big_int 2 x))
                           (Big_int_Z.mult_int_big_int 2
                           ((fun x -> Big_int_Z.succ_big_int (Big_int_Z.mult_int_big_int 2 x))
                           ((fun x -> Big_int_Z.succ_big_int (Big_int_Z.mult_int_big_int 2 x))
                           (Big_int_Z.mult_int_big_int 2
                           Big_int_Z.unit_big_int))))))
                      then single KBracketLeft rest
                      else if N.eqb x
                                ((fun x -> Big_int_Z.succ_big_int (Big_int_Z.mult_int_big_int 2 x))
                                (Big_int_Z.mult_int_big_int 2
                                ((fun x -> Big_int_Z.succ_big_int (Big_int_Z.mult_int_big_int 2 x))
                                ((fun x -> Big_int_Z.succ_big_int (Big_int_Z.mult_int_big_int 2 x))
                                ((fun x -> Big_int_Z.succ_big_int (Big_int_Z.mult_int_big_int 2 x))
                                (Big_int_Z.mult_int_big_int 2
                                Big_int_Z.unit_big_int))))))
                           then single KBracketRight rest
                           else if N.eqb x (Big_int_Z.mult_int_big_int 2
                                     (Big_int_Z.mult_int_big_int 2
                                     ((fun x -> Big_int_Z.succ_big_int (Big_int_Z.mult_int_big_int 2 x))
                                     ((fun x -> Big_int_Z.succ_big_int (Big_int_Z.mult_int_big_int 2 x))
                                     ((fun x -> Big_int_Z.succ_big_int (Big_int_Z.mult_int_big_int 2 x))
                                     Big_int_Z.unit_big_int)))))
                                then (match rest with
                                      | [] -> single KAngleLeft rest
                                      | z0 :: r ->
                                        if N.eqb z0
                                             (Big_int_Z.mult_int_big_int 2
                                             (Big_int_Z.mult_int_big_int 2
                                             ((fun x -> Big_int_Z.succ_big_int (Big_int_Z.mult_int_big_int 2 x))
                                             ((fun x -> Big_int_Z.succ_big_int (Big_int_Z.mult_int_big_int 2 x))
                                             ((fun x -> Big_int_Z.succ_big_int (Big_int_Z.mult_int_big_int 2 x))
                                             Big_int_Z.unit_big_int)))))
                                        then StTok (KShiftLeft,
                                               Big_int_Z.zero_big_int, None,
                                               [],
                                               (Big_int_Z.mult_int_big_int 2
                                               Big_int_Z.unit_big_int), r)
                                        else if N.eqb z0
                                                  ((fun x -> Big_int_Z.succ_big_int (Big_int_Z.mult_int_big_int 2 x))
                                                  (Big_int_Z.mult_int_big_int 2
                                                  ((fun x -> Big_int_Z.succ_big_int (Big_int_Z.mult_int_big_int 2 x))
                                                  ((fun x -> Big_int_Z.succ_big_int (Big_int_Z.mult_int_big_int 2 x))
                                                  ((fun x -> Big_int_Z.succ_big_int (Big_int_Z.mult_int_big_int 2 x))
                                                  Big_int_Z.unit_big_int)))))
                                             then StTok (KIsLE,
                                                    Big_int_Z.zero_big_int,
                                                    None, [],
                                                    (Big_int_Z.mult_int_big_int 2
                                                    Big_int_Z.unit_big_int),
                                                    r)
                                             else single KAngleLeft rest)
                                else if N.eqb x (Big_int_Z.mult_int_big_int 2
                                          ((fun x -> Big_int_Z.succ_big_int (Big_int_Z.mult_int_big_int 2 x))
                                          ((fun x -> Big_int_Z.succ_big_int (Big_int_Z.mult_int_big_int 2 x))
                                          ((fun x -> Big_int_Z.succ_big_int (Big_int_Z.mult_int_big_int 2 x))
                                          ((fun x -> Big_int_Z.succ_big_int (Big_int_Z.mult_int_big_int 2 x))
                                          Big_int_Z.unit_big_int)))))
                                     then (match rest with
                                           | [] -> single KAngleRight rest
                                           | z0 :: r ->
                                             if N.eqb z0
                                                  (Big_int_Z.mult_int_big_int 2
                                                  ((fun x -> Big_int_Z.succ_big_int (Big_int_Z.mult_int_big_int 2 x))
                                                  ((fun x -> Big_int_Z.succ_big_int (Big_int_Z.mult_int_big_int 2 x))
                                                  ((fun x -> Big_int_Z.succ_big_int (Big_int_Z.mult_int_big_int 2 x))
                                                  ((fun x -> Big_int_Z.succ_big_int (Big_int_Z.mult_int_big_int 2 x))
                                                  Big_int_Z.unit_big_int)))))
                                             then StTok (KShiftRight,
                                                    Big_int_Z.zero_big_int,
                                                    None, [],
                                                    (Big_int_Z.mult_int_big_int 2
                                                    Big_int_Z.unit_big_int),
                                                    r)
                                             else if N.eqb z0
                                                       ((fun x -> Big_int_Z.succ_big_int (Big_int_Z.mult_int_big_int 2 x))
                                                       (Big_int_Z.mult_int_big_int 2
                                                       ((fun x -> Big_int_Z.succ_big_int (Big_int_Z.mult_int_big_int 2 x))
                                                       ((fun x -> Big_int_Z.succ_big_int (Big_int_Z.mult_int_big_int 2 x))
                                                       ((fun x -> Big_int_Z.succ_big_int (Big_int_Z.mult_int_big_int 2 x))
                                                       Big_int_Z.unit_big_int)))))
                                                  then StTok (KIsGE,
                                                         Big_int_Z.zero_big_int,
                                                         None, [],
                                                         (Big_int_Z.mult_int_big_int 2
                                                         Big_int_Z.unit_big_int),
                                                         r)
                                                  else single KAngleRight rest)
                                     else if N.eqb x
                                               (Big_int_Z.mult_int_big_int 2
                                               (Big_int_Z.mult_int_big_int 2
                                               ((fun x -> Big_int_Z.succ_big_int (Big_int_Z.mult_int_big_int 2 x))
                                               ((fun x -> Big_int_Z.succ_big_int (Big_int_Z.mult_int_big_int 2 x))
                                               ((fun x -> Big_int_Z.succ_big_int (Big_int_Z.mult_int_big_int 2 x))
                                               ((fun x -> Big_int_Z.succ_big_int (Big_int_Z.mult_int_big_int 2 x))
                                               Big_int_Z.unit_big_int))))))
                                          then double0
                                                 (Big_int_Z.mult_int_big_int 2
                                                 ((fun x -> Big_int_Z.succ_big_int (Big_int_Z.mult_int_big_int 2 x))
                                                 (Big_int_Z.mult_int_big_int 2
                                                 ((fun x -> Big_int_Z.succ_big_int (Big_int_Z.mult_int_big_int 2 x))
                                                 ((fun x -> Big_int_Z.succ_big_int (Big_int_Z.mult_int_big_int 2 x))
                                                 Big_int_Z.unit_big_int)))))
                                                 KPipeForType KPipe rest
                                          else if N.eqb x
                                                    (Big_int_Z.mult_int_big_int 2
                                                    ((fun x -> Big_int_Z.succ_big_int (Big_int_Z.mult_int_big_int 2 x))
                                                    ((fun x -> Big_int_Z.succ_big_int (Big_int_Z.mult_int_big_int 2 x))
                                                    (Big_int_Z.mult_int_big_int 2
                                                    (Big_int_Z.mult_int_big_int 2
                                                    Big_int_Z.unit_big_int)))))
                                               then single KAmpersand rest
                                               else if N.eqb x
                                                         (Big_int_Z.mult_int_big_int 2
                                                         ((fun x -> Big_int_Z.succ_big_int (Big_int_Z.mult_int_big_int 2 x))
                                                         ((fun x -> Big_int_Z.succ_big_int (Big_int_Z.mult_int_big_int 2 x))
                                                         ((fun x -> Big_int_Z.succ_big_int (Big_int_Z.mult_int_big_int 2 x))
                                                         ((fun x -> Big_int_Z.succ_big_int (Big_int_Z.mult_int_big_int 2 x))
                                                         (Big_int_Z.mult_int_big_int 2
                                                         Big_int_Z.unit_big_int))))))
                                                    then single KCaret rest
                                                    else if N.eqb x
                                                              ((fun x -> Big_int_Z.succ_big_int (Big_int_Z.mult_int_big_int 2 x))
                                                              (Big_int_Z.mult_int_big_int 2
                                                              (Big_int_Z.mult_int_big_int 2
                                                              (Big_int_Z.mult_int_big_int 2
                                                              (Big_int_Z.mult_int_big_int 2
                                                              Big_int_Z.unit_big_int)))))
                                                         then double0
                                                                ((fun x -> Big_int_Z.succ_big_int (Big_int_Z.mult_int_big_int 2 x))
                                                                (Big_int_Z.mult_int_big_int 2
                                                                ((fun x -> Big_int_Z.succ_big_int (Big_int_Z.mult_int_big_int 2 x))
                                                                ((fun x -> Big_int_Z.succ_big_int (Big_int_Z.mult_int_big_int 2 x))
                                                                ((fun x -> Big_int_Z.succ_big_int (Big_int_Z.mult_int_big_int 2 x))
                                                                Big_int_Z.unit_big_int)))))
                                                                KDoesNotEqual
                                                                KExclamation
                                                                rest
                                                         else if N.eqb x
                                                                   ((fun x -> Big_int_Z.succ_big_int (Big_int_Z.mult_int_big_int 2 x))
                                                                   ((fun x -> Big_int_Z.succ_big_int (Big_int_Z.mult_int_big_int 2 x))
                                                                   (Big_int_Z.mult_int_big_int 2
                                                                   ((fun x -> Big_int_Z.succ_big_int (Big_int_Z.mult_int_big_int 2 x))
                                                                   (Big_int_Z.mult_int_big_int 2
                                                                   Big_int_Z.unit_big_int)))))
                                                              then single
                                                                    KPlus rest
                                                              else if 
                                                                    N.eqb x
                                                                    (Big_int_Z.mult_int_big_int 2
                                                                    ((fun x -> Big_int_Z.succ_big_int (Big_int_Z.mult_int_big_int 2 x))
                                                                    (Big_int_Z.mult_int_big_int 2
                                                                    ((fun x -> Big_int_Z.succ_big_int (Big_int_Z.mult_int_big_int 2 x))
                                                                    (Big_int_Z.mult_int_big_int 2
                                                                    Big_int_Z.unit_big_int)))))
                                                                   then 
                                                                    single
                                                                    KTimes
                                                                    rest
                                                                   else 
                                                                    if 
                                                                    N.eqb x
                                                                    ((fun x -> Big_int_Z.succ_big_int (Big_int_Z.mult_int_big_int 2 x))
                                                                    (Big_int_Z.mult_int_big_int 2
                                                                    ((fun x -> Big_int_Z.succ_big_int (Big_int_Z.mult_int_big_int 2 x))
                                                                    (Big_int_Z.mult_int_big_int 2
                                                                    (Big_int_Z.mult_int_big_int 2
                                                                    Big_int_Z.unit_big_int)))))
                                                                    then 
                                                                    single
                                                                    KModulo
                                                                    rest
                                                                    else 
                                                                    if 
                                                                    N.eqb x
                                                                    (Big_int_Z.mult_int_big_int 2
                                                                    ((fun x -> Big_int_Z.succ_big_int (Big_int_Z.mult_int_big_int 2 x))
                                                                    (Big_int_Z.mult_int_big_int 2
                                                                    ((fun x -> Big_int_Z.succ_big_int (Big_int_Z.mult_int_big_int 2 x))
                                                                    ((fun x -> Big_int_Z.succ_big_int (Big_int_Z.mult_int_big_int 2 x))
                                                                    Big_int_Z.unit_big_int)))))
                                                                    then 
                                                                    single
                                                                    KColon
                                                                    rest
                                                                    else 
                                                                    if 
                                                                    N.eqb x
                                                                    ((fun x -> Big_int_Z.succ_big_int (Big_int_Z.mult_int_big_int 2 x))
                                                                    ((fun x -> Big_int_Z.succ_big_int (Big_int_Z.mult_int_big_int 2 x))
                                                                    (Big_int_Z.mult_int_big_int 2
                                                                    ((fun x -> Big_int_Z.succ_big_int (Big_int_Z.mult_int_big_int 2 x))
                                                                    ((fun x -> Big_int_Z.succ_big_int (Big_int_Z.mult_int_big_int 2 x))
                                                                    Big_int_Z.unit_big_int)))))
                                                                    then 
                                                                    single
                                                                    KSemicolon
                                                                    rest
                                                                    else 
                                                                    if 
                                                                    N.eqb x
                                                                    (Big_int_Z.mult_int_big_int 2
                                                                    ((fun x -> Big_int_Z.succ_big_int (Big_int_Z.mult_int_big_int 2 x))
                                                                    ((fun x -> Big_int_Z.succ_big_int (Big_int_Z.mult_int_big_int 2 x))
                                                                    ((fun x -> Big_int_Z.succ_big_int (Big_int_Z.mult_int_big_int 2 x))
                                                                    (Big_int_Z.mult_int_big_int 2
                                                                    Big_int_Z.unit_big_int)))))
                                                                    then 
                                                                    double0
                                                                    (Big_int_Z.mult_int_big_int 2
                                                                    ((fun x -> Big_int_Z.succ_big_int (Big_int_Z.mult_int_big_int 2 x))
                                                                    ((fun x -> Big_int_Z.succ_big_int (Big_int_Z.mult_int_big_int 2 x))
                                                                    ((fun x -> Big_int_Z.succ_big_int (Big_int_Z.mult_int_big_int 2 x))
                                                                    (Big_int_Z.mult_int_big_int 2
                                                                    Big_int_Z.unit_big_int)))))
                                                                    KDots
                                                                    KDot rest
                                                                    else 
                                                                    if 
                                                                    N.eqb x
                                                                    (Big_int_Z.mult_int_big_int 2
                                                                    (Big_int_Z.mult_int_big_int 2
                                                                    ((fun x -> Big_int_Z.succ_big_int (Big_int_Z.mult_int_big_int 2 x))
                                                                    ((fun x -> Big_int_Z.succ_big_int (Big_int_Z.mult_int_big_int 2 x))
                                                                    (Big_int_Z.mult_int_big_int 2
                                                                    Big_int_Z.unit_big_int)))))
                                                                    then 
                                                                    single
                                                                    KComma
                                                                    rest
                                                                    else 
                                                                    if 
                                                                    N.eqb x
                                                                    ((fun x -> Big_int_Z.succ_big_int (Big_int_Z.mult_int_big_int 2 x))
                                                                    (Big_int_Z.mult_int_big_int 2
                                                                    ((fun x -> Big_int_Z.succ_big_int (Big_int_Z.mult_int_big_int 2 x))
                                                                    ((fun x -> Big_int_Z.succ_big_int (Big_int_Z.mult_int_big_int 2 x))
                                                                    ((fun x -> Big_int_Z.succ_big_int (Big_int_Z.mult_int_big_int 2 x))
                                                                    Big_int_Z.unit_big_int)))))
                                                                    then 
                                                                    double0
                                                                    ((fun x -> Big_int_Z.succ_big_int (Big_int_Z.mult_int_big_int 2 x))
                                                                    (Big_int_Z.mult_int_big_int 2
                                                                    ((fun x -> Big_int_Z.succ_big_int (Big_int_Z.mult_int_big_int 2 x))
                                                                    ((fun x -> Big_int_Z.succ_big_int (Big_int_Z.mult_int_big_int 2 x))
                                                                    ((fun x -> Big_int_Z.succ_big_int (Big_int_Z.mult_int_big_int 2 x))
                                                                    Big_int_Z.unit_big_int)))))
                                                                    KEquals
                                                                    KAssignment
                                                                    rest
                                                                    else 
                                                                    if 
                                                                    N.eqb x
                                                                    ((fun x -> Big_int_Z.succ_big_int (Big_int_Z.mult_int_big_int 2 x))
                                                                    (Big_int_Z.mult_int_big_int 2
                                                                    ((fun x -> Big_int_Z.succ_big_int (Big_int_Z.mult_int_big_int 2 x))
                                                                    ((fun x -> Big_int_Z.succ_big_int (Big_int_Z.mult_int_big_int 2 x))
                                                                    (Big_int_Z.mult_int_big_int 2
                                                                    Big_int_Z.unit_big_int)))))
                                                                    then 
                                                                    double0
                                                                    (Big_int_Z.mult_int_big_int 2
                                                                    ((fun x -> Big_int_Z.succ_big_int (Big_int_Z.mult_int_big_int 2 x))
                                                                    ((fun x -> Big_int_Z.succ_big_int (Big_int_Z.mult_int_big_int 2 x))
                                                                    ((fun x -> Big_int_Z.succ_big_int (Big_int_Z.mult_int_big_int 2 x))
                                                                    ((fun x -> Big_int_Z.succ_big_int (Big_int_Z.mult_int_big_int 2 x))
                                                                    Big_int_Z.unit_big_int)))))
                                                                    KArrow
                                                                    KMinus
                                                                    rest
                                                                    else 
                                                                    if 
                                                                    N.eqb x
                                                                    ((fun x -> Big_int_Z.succ_big_int (Big_int_Z.mult_int_big_int 2 x))
                                                                    ((fun x -> Big_int_Z.succ_big_int (Big_int_Z.mult_int_big_int 2 x))
                                                                    ((fun x -> Big_int_Z.succ_big_int (Big_int_Z.mult_int_big_int 2 x))
                                                                    ((fun x -> Big_int_Z.succ_big_int (Big_int_Z.mult_int_big_int 2 x))
                                                                    (Big_int_Z.mult_int_big_int 2
                                                                    Big_int_Z.unit_big_int)))))
                                                                    then 
                                                                    (match rest with
                                                                    | [] ->
                                                                    single
                                                                    KDivide
                                                                    rest
                                                                    | z0 :: _ ->
                                                                    if 
                                                                    N.eqb z0
                                                                    ((fun x -> Big_int_Z.succ_big_int (Big_int_Z.mult_int_big_int 2 x))
                                                                    ((fun x -> Big_int_Z.succ_big_int (Big_int_Z.mult_int_big_int 2 x))
                                                                    ((fun x -> Big_int_Z.succ_big_int (Big_int_Z.mult_int_big_int 2 x))
                                                                    ((fun x -> Big_int_Z.succ_big_int (Big_int_Z.mult_int_big_int 2 x))
                                                                    (Big_int_Z.mult_int_big_int 2
                                                                    Big_int_Z.unit_big_int)))))
                                                                    then StEnd
                                                                    else 
                                                                    single
                                                                    KDivide
                                                                    rest)
                                                                    else 
                                                                    if 
                                                                    is_ident_start
                                                                    x
                                                                    then 
                                                                    lex_word
                                                                    x rest
                                                                    else 
                                                                    if 
                                                                    N.eqb x
                                                                    (Big_int_Z.mult_int_big_int 2
                                                                    (Big_int_Z.mult_int_big_int 2
                                                                    (Big_int_Z.mult_int_big_int 2
                                                                    (Big_int_Z.mult_int_big_int 2
                                                                    ((fun x -> Big_int_Z.succ_big_int (Big_int_Z.mult_int_big_int 2 x))
                                                                    Big_int_Z.unit_big_int)))))
                                                                    then 
                                                                    lex_zero
                                                                    rest
                                                                    else 
                                                                    if 
                                                                    is_nonzero_dec
                                                                    x
                                                                    then 
                                                                    lex_decimal
                                                                    x rest
                                                                    else 
                                                                    if 
                                                                    (||)
                                                                    (N.eqb x
                                                                    (Big_int_Z.mult_int_big_int 2
                                                                    ((fun x -> Big_int_Z.succ_big_int (Big_int_Z.mult_int_big_int 2 x))
                                                                    (Big_int_Z.mult_int_big_int 2
                                                                    (Big_int_Z.mult_int_big_int 2
                                                                    (Big_int_Z.mult_int_big_int 2
                                                                    Big_int_Z.unit_big_int))))))
                                                                    (N.eqb x
                                                                    ((fun x -> Big_int_Z.succ_big_int (Big_int_Z.mult_int_big_int 2 x))
                                                                    ((fun x -> Big_int_Z.succ_big_int (Big_int_Z.mult_int_big_int 2 x))
                                                                    ((fun x -> Big_int_Z.succ_big_int (Big_int_Z.mult_int_big_int 2 x))
                                                                    (Big_int_Z.mult_int_big_int 2
                                                                    (Big_int_Z.mult_int_big_int 2
                                                                    Big_int_Z.unit_big_int))))))
                                                                    then 
                                                                    lex_quote
                                                                    x rest
                                                                    else 
                                                                    if 
                                                                    (||)
                                                                    (N.eqb x
                                                                    (Big_int_Z.mult_int_big_int 2
                                                                    (Big_int_Z.mult_int_big_int 2
                                                                    (Big_int_Z.mult_int_big_int 2
                                                                    (Big_int_Z.mult_int_big_int 2
                                                                    (Big_int_Z.mult_int_big_int 2
                                                                    Big_int_Z.unit_big_int))))))
                                                                    (N.eqb x
                                                                    ((fun x -> Big_int_Z.succ_big_int (Big_int_Z.mult_int_big_int 2 x))
                                                                    (Big_int_Z.mult_int_big_int 2
                                                                    (Big_int_Z.mult_int_big_int 2
                                                                    Big_int_Z.unit_big_int))))
                                                                    then 
                                                                    StSkip
                                                                    else 
                                                                    StTok
                                                                    (KError,
                                                                    e110,
                                                                    None, [],
                                                                    Big_int_Z.unit_big_int,
                                                                    rest)

(** val mk :
    tkind -> Big_int_Z.big_int -> tykw option -> Big_int_Z.big_int list ->
    Big_int_Z.big_int -> Big_int_Z.big_int -> Big_int_Z.big_int ->
    Big_int_Z.big_int -> tok **)

let mk k v ty bs s e ln lo =
  { kind = k; value = v; vtype = ty; bytes = bs; tstart = s; tend = e; line =
    ln; lstart = lo }

(** val lex_line_fuel :
    nat -> Big_int_Z.big_int -> Big_int_Z.big_int -> Big_int_Z.big_int ->
    Big_int_Z.big_int list -> tok list **)

let rec lex_line_fuel fuel ln sos lo = function
| [] -> []
| x :: rest ->
  (match fuel with
   | O -> (mk KError oOF None [] sos sos ln lo) :: []
   | S f ->
     (match lex_step x rest with
      | StEnd -> []
      | StSkip ->
        lex_line_fuel f ln (N.add sos Big_int_Z.unit_big_int)
          (N.add lo Big_int_Z.unit_big_int) rest
      | StTok (k, v, ty, bs, n0, rest') ->
        (mk k v ty bs sos (N.add sos n0) ln lo) :: (lex_line_fuel f ln
                                                     (N.add sos n0)
                                                     (N.add lo n0) rest')
      | StStrErr (c, es, ee, eo, n0, m, rest') ->
        (mk KError c None [] (N.add sos es) (N.add sos ee) ln (N.add lo eo)) :: 
          (lex_line_fuel f ln (N.add sos n0) (N.add lo m) rest')))

(** val lex_line :
    Big_int_Z.big_int list -> Big_int_Z.big_int -> Big_int_Z.big_int -> tok
    list **)

let lex_line cs offset ln =
  lex_line_fuel (length cs) ln offset Big_int_Z.zero_big_int cs

(** val lines_of : Big_int_Z.big_int list -> Big_int_Z.big_int list list **)

let rec lines_of = function
| [] -> []
| c :: r ->
  if N.eqb c (Big_int_Z.mult_int_big_int 2
       ((fun x -> Big_int_Z.succ_big_int (Big_int_Z.mult_int_big_int 2 x))
       (Big_int_Z.mult_int_big_int 2 Big_int_Z.unit_big_int)))
  then [] :: (lines_of r)
  else if (&&)
            (N.eqb c
              ((fun x -> Big_int_Z.succ_big_int (Big_int_Z.mult_int_big_int 2 x))
              (Big_int_Z.mult_int_big_int 2
              ((fun x -> Big_int_Z.succ_big_int (Big_int_Z.mult_int_big_int 2 x))
              Big_int_Z.unit_big_int))))
            (match r with
             | [] -> false
             | n0 :: _ ->
               N.eqb n0 (Big_int_Z.mult_int_big_int 2
                 ((fun x -> Big_int_Z.succ_big_int (Big_int_Z.mult_int_big_int 2 x))
                 (Big_int_Z.mult_int_big_int 2 Big_int_Z.unit_big_int))))
       then lines_of r
       else (match lines_of r with
             | [] -> (c :: []) :: []
             | l :: ls -> (c :: l) :: ls)

(** val lex_lines :
    Big_int_Z.big_int list list -> Big_int_Z.big_int -> Big_int_Z.big_int ->
    tok list **)

let rec lex_lines ls offset i =
  match ls with
  | [] -> []
  | l :: r ->
    app (lex_line l offset (N.add Big_int_Z.unit_big_int i))
      (lex_lines r (N.add offset (N.add (len l) Big_int_Z.unit_big_int))
        (N.add i Big_int_Z.unit_big_int))

(** val zero_byte_tok : tok **)

let zero_byte_tok =
  mk KError e101 None [] Big_int_Z.zero_big_int Big_int_Z.zero_big_int
    Big_int_Z.unit_big_int Big_int_Z.unit_big_int

(** val lex_alpha : Big_int_Z.big_int list -> tok list **)

let lex_alpha src =
  app
    (lex_lines (lines_of src) Big_int_Z.zero_big_int Big_int_Z.zero_big_int)
    (if is_nil src then zero_byte_tok :: [] else [])
