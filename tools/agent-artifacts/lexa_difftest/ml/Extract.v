From Coq Require Import Extraction ExtrOcamlBasic ExtrOcamlZBigInt.
From PV Require Import Base.Common Base.IR Base.Tok Model.LexAlpha.
Extraction Language OCaml.
Set Extraction Output Directory ".".
Extraction "lexalpha.ml" lex_alpha.
