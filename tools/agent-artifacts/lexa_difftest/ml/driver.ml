open Lexalpha
let kname = function
  | KParenLeft -> "ParenLeft"
  | KParenRight -> "ParenRight"
  | KBraceLeft -> "BraceLeft"
  | KBraceRight -> "BraceRight"
  | KBracketLeft -> "BracketLeft"
  | KBracketRight -> "BracketRight"
  | KAngleLeft -> "AngleLeft"
  | KAngleRight -> "AngleRight"
  | KPipe -> "Pipe"
  | KAmpersand -> "Ampersand"
  | KCaret -> "Caret"
  | KExclamation -> "Exclamation"
  | KPlaceholder -> "Placeholder"
  | KPlus -> "Plus"
  | KMinus -> "Minus"
  | KTimes -> "Times"
  | KDivide -> "Divide"
  | KModulo -> "Modulo"
  | KColon -> "Colon"
  | KSemicolon -> "Semicolon"
  | KDot -> "Dot"
  | KComma -> "Comma"
  | KAssignment -> "Assignment"
  | KEquals -> "Equals"
  | KDoesNotEqual -> "DoesNotEqual"
  | KIsGE -> "IsGE"
  | KIsLE -> "IsLE"
  | KShiftLeft -> "ShiftLeft"
  | KShiftRight -> "ShiftRight"
  | KArrow -> "Arrow"
  | KPipeForType -> "PipeForType"
  | KDots -> "Dots"
  | KFn -> "Fn"
  | KVar -> "Var"
  | KConst -> "Const"
  | KIf -> "If"
  | KGoto -> "Goto"
  | KLoop -> "Loop"
  | KReturn -> "Return"
  | KElse -> "Else"
  | KCast -> "Cast"
  | KAs -> "As"
  | KImport -> "Import"
  | KPub -> "Pub"
  | KExtern -> "Extern"
  | KStruct -> "Struct"
  | KWord8 -> "Word8"
  | KWord16 -> "Word16"
  | KWord32 -> "Word32"
  | KWord64 -> "Word64"
  | KWord128 -> "Word128"
  | KType -> "Type"
  | KIdentifier -> "Identifier"
  | KBuiltin -> "Builtin"
  | KNakedDecimal -> "NakedDecimal"
  | KBitInteger -> "BitInteger"
  | KSuffixedInteger -> "SuffixedInteger"
  | KCharLiteral -> "CharLiteral"
  | KBool -> "Bool"
  | KStringLiteral -> "StringLiteral"
  | KError -> "Error"
let pname = function
  | Int8 -> "i8"
  | Int16 -> "i16"
  | Int32 -> "i32"
  | Int64 -> "i64"
  | Int128 -> "i128"
  | Uint8 -> "u8"
  | Uint16 -> "u16"
  | Uint32 -> "u32"
  | Uint64 -> "u64"
  | Uint128 -> "u128"
  | Usize -> "usize"
  | Char8 -> "char8"
  | Bool -> "bool"
let tyname = function None -> "-" | Some TyVoid -> "void" | Some (TyPrim p) -> pname p
let bs = Big_int_Z.string_of_big_int
let () =
  let buf = Buffer.create 65536 in
  (try
    while true do
      let l = input_line stdin in
      let ws = List.filter (fun s -> s <> "") (String.split_on_char ' ' l) in
      let src = List.map Big_int_Z.big_int_of_string ws in
      let toks = lex_alpha src in
      List.iter (fun t ->
        Buffer.add_string buf (Printf.sprintf "%s %s %s [%s] %s %s %s %s;" (kname t.kind) (bs t.value) (tyname t.vtype)
          (String.concat "," (List.map bs t.bytes)) (bs t.tstart) (bs t.tend) (bs t.line) (bs t.lstart))) toks;
      Buffer.add_char buf '\n';
      if Buffer.length buf > 60000 then (print_string (Buffer.contents buf); Buffer.clear buf)
    done
  with End_of_file -> ());
  print_string (Buffer.contents buf)
