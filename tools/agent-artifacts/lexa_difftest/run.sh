#!/bin/bash
# usage: run.sh seed count
cd /tmp/agent-lexa/difftest
python3 gen.py $1 $2 > in_$1.txt
./ml/lexml < in_$1.txt > oml_$1.txt
./rs/target/release/lexref < in_$1.txt > ors_$1.txt
if cmp -s oml_$1.txt ors_$1.txt; then echo "seed $1: SAME ($2)"; rm in_$1.txt oml_$1.txt ors_$1.txt; else echo "seed $1: DIFF"; fi
