import random, sys
seed=int(sys.argv[1]); n=int(sys.argv[2])
random.seed(seed)
chars = list("0123456789__xbabcdefABCDEFuiszeXZgG \t\n\r\"'\\\\{}{}<>=!|:.-/&^+*%;,()[]#@?~`$") + ["\x00","\x7f","\x0b","\x0c","\x1f","\x80","߿","ࠀ","￿","\U00010000","\U0010ffff","é","€","😀"," ","\x85"]
frags = ["0x","0b","0x_","1_","u8","i8","u16","i16","u32","i32","u64","i64","u128","i128","usize","char8","bool","void","true","false",
 "fn","var","const","if","goto","loop","else","cast","as","import","pub","extern","struct","word8","word16","word32","word64","word128","_","return",
 "\\n","\\r","\\t","\\\\","\\'","\\\"","\\0","\\x","\\x4","\\x41","\\xfF","\\xg","\\u","\\u{","\\u{41}","\\u{}","\\u{d800}","\\u{dfff}","\\u{e000}","\\u{10ffff}","\\u{110000}","\\u{ffffffff}","\\u{100000000}","\\u{0000000000041}","\\u{41","\\u{4g}","\\q",
 "340282366920938463463374607431768211455","340282366920938463463374607431768211456","0xffffffffffffffffffffffffffffffff","0x100000000000000000000000000000000","0x0000000000000000000000000000000000001",
 "0b"+"1"*128,"0b1"+"0"*128,"0b"+"0"*130+"1","99999999999999999999999999999999999999999", "3402823669209384634633746074317682114550", "34028236692093846346337460743176821145",
 "//","\r\n","\n","'a'","\"ab\"","!","name!","if!","!=","==","<<",">>","<=",">=","->","|:","..","...", "0123","0_","00","0u8","0x1u8","0b1i8","1u8","12_u8","1__2","1a","1_a", "9"*38, "9"*39,"9"*40]
def one():
    mode=random.random()
    k=random.randint(0,14) if random.random()<0.8 else random.randint(0,40)
    out=[]
    for _ in range(k):
        if random.random()<(0.5 if mode<0.7 else 0.15):
            out.append(random.choice(frags))
        else:
            out.append(random.choice(chars))
    if mode>0.9:
        # quoted-heavy
        q=random.choice("\"'")
        out=[q]+out+([q] if random.random()<0.7 else [])
    return "".join(out)
w=sys.stdout.write
for _ in range(n):
    s=one()
    w(" ".join(str(ord(c)) for c in s)); w("\n")
