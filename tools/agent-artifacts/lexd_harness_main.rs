use penne::delta::lexer::{lex, BaseToken, ValueTypeKeyword};
use penne::delta::lexer::tokens::TokenId;
use penne::delta::parser::parse_node;
use std::io::{BufRead, Write};

fn unhex(s: &str) -> Vec<u8> {
    let b = s.as_bytes();
    (0..b.len() / 2)
        .map(|i| u8::from_str_radix(std::str::from_utf8(&b[2 * i..2 * i + 2]).unwrap(), 16).unwrap())
        .collect()
}

fn run(src: &[u8]) -> String {
    let tokens = lex(src, "f");
    let base = tokens.base_tokens();
    let codes: Vec<u16> = tokens.errors().map(|e| e.codes()).unwrap_or_default();
    let mut nerr = 0;
    let mut out = String::new();
    let mut n = base.len();
    let mut nend = 0;
    while n > 0 && base[n - 1] == BaseToken::EndOfSource {
        n -= 1;
        nend += 1;
    }
    for i in 0..n {
        let id: TokenId = parse_node::TokenId(parse_node::U24::new(i)).into();
        let bt = base[i];
        let vap = tokens.get_value_type_and_payload(id);
        let loc = tokens.get_location(id);
        let vt = vap.value_type();
        let payload = tokens.get_integer_payload(vap.payload_id());
        let (kind, value) = if bt == BaseToken::Error {
            let c = codes.get(nerr).copied().unwrap_or(9999);
            nerr += 1;
            ("Error".to_string(), c as u128)
        } else {
            (format!("{:?}", bt), payload.unwrap_or(0))
        };
        let vts = if vt == ValueTypeKeyword::NoKeyword { "-".to_string() } else { format!("{:?}", vt) };
        out.push_str(&format!(
            "{} {} {} {} {} {} {};",
            kind, value, vts, loc.span.start, loc.span.end, loc.line_number, loc.line_offset
        ));
    }
    // end-of-source location
    let eos = if nend > 0 {
        let id: TokenId = parse_node::TokenId(parse_node::U24::new(n)).into();
        let loc = tokens.get_location(id);
        format!("{} {} {}", loc.span.start, loc.line_number, loc.line_offset)
    } else { "-".to_string() };
    format!("{}|{}|{}|{}", out, nend, eos, codes.len() - nerr.min(codes.len()))
}

fn main() {
    std::panic::set_hook(Box::new(|_| {}));
    let stdin = std::io::stdin();
    let stdout = std::io::stdout();
    let mut w = std::io::BufWriter::new(stdout.lock());
    for line in stdin.lock().lines() {
        let line = line.unwrap();
        let src = unhex(line.trim());
        let r = std::panic::catch_unwind(|| run(&src));
        match r {
            Ok(s) => writeln!(w, "{}", s).unwrap(),
            Err(_) => writeln!(w, "PANIC").unwrap(),
        }
    }
}
