import random, sys
seed=int(sys.argv[1]); n=int(sys.argv[2]); random.seed(seed)
kws=["fn","var","const","if","goto","loop","return","else","cast","as","true","false","bool","void","char8","i8","i16","i32","i64","i128","u8","u16","u32","u64","u128","usize","import","pub","extern","struct","word8","word16","word32","word64","word128","_","foo","x","print","u","i","usiz","u1288","word","b","ab","xf"]
frag=[b" ",b"\t",b"\r",b"\n",b"\r\n",b"//",b"/",b"'",b'"',b"\\",b"\\n",b"\\x",b"\\x4",b"\\x41",b"\\xg",b"\\u",b"\\u{",b"\\u{41}",b"\\u{}",b"\\u{d800}",b"\\u{10ffff}",b"\\u{110000}",b"\\u{0000041}",b"}",b"{",b"\\'",b'\\"',b"\\0",b"\\\n",b"\\q",
 b"0",b"0x",b"0b",b"1",b"9",b"_",b"!",b"=",b"<",b">",b"|",b":",b".",b"-",b"&",b"^",b"+",b"*",b"%",b";",b",",b"(",b")",b"[",b"]",b"\x00",b"\x7f",b"\x80",b"\xff",b"\xc3\xa9",b"#",b"$",b"?",b"@",b"`",b"~",b"\x0b",b"\x0c",b"a",b"f",b"F",b"G",b"z",b"Z",b"x",b"b",
 b"340282366920938463463374607431768211455",b"340282366920938463463374607431768211456",b"34028236692093846346337460743176821145",b"3402823669209384634633746074317682114",b"ffffffffffffffffffffffffffffffff",b"1"*127,b"0"*128,b"1"*128,b"0"*129,b"u8",b"i128"]
frag += [k.encode() for k in kws]
def rnd():
    k=random.random()
    if k<0.15:
        return bytes(random.randrange(256) for _ in range(random.randint(1,12)))
    m=random.randint(1,10)
    out=b""
    for _ in range(m):
        r=random.random()
        if r<0.75: out+=random.choice(frag)
        elif r<0.85: out+=bytes([random.randrange(256)])
        elif r<0.95: out+=str(random.choice([0,1,7,10,255,256,65535,2**64-1,2**64,2**127,2**128-1,2**128,2**128+3,2**128+4,2**128+6,2**129,10**38,10**39,random.getrandbits(random.randint(1,140))])).encode()
        else: out+=random.choice([b"0x",b"0b"])+random.choice([format(random.getrandbits(random.randint(1,140)),'x').encode(), format(random.getrandbits(random.randint(1,135)),'b').encode()])
    return out
for _ in range(n):
    print(rnd().hex())
