#!/bin/bash
# Re-test the stored seeded changes of rounds 5-8 (111) against the quick check of their own property.
cd /verif
for id in C01 C02 C03 C04 C05 C06 C07 C08 C09 C10 C11 C12 C13 C14 C15 C16 C17 C18 C19 C20; do
  for r in 5 6 7 8; do
    python3 tools/seedtest.py $id --stored --round $r 2>&1 | grep -E "CAUGHT|MISSED|APPLY" | sed "s/^/round $r /"
  done
done
