#!/bin/bash
# Re-test the stored seeded changes of rounds 1-4 (261) against the quick check of their own property.
# (tools/seedall.sh does rounds 1-6; about 30 s per seed.)  Patches /repo's working tree and restores it.
cd /verif
for id in C01 C02 C03 C04 C05 C06 C07 C08 C09 C10 C11 C12 C13 C14 C15 C16 C17 C18 C19 C20; do
  for r in "" 2 3 4; do
    if [ -z "$r" ]; then python3 tools/seedtest.py $id --stored; else python3 tools/seedtest.py $id --stored --round $r; fi 2>&1 | grep -E "CAUGHT|MISSED|APPLY" | sed "s/^/round ${r:-1} /"
  done
done
