#!/usr/bin/env python3
"""Hunt for abnormal endings of the compiler (C02) and minimise one witness per
class.  Usage: crashhunt.py <n-inputs> <seed>...   Writes /verif/.cache/hunt/<key>.pn"""
import sys, os, random, re, collections
sys.path.insert(0, "/verif")
from pv import common as C, gen_mut as GM
from pv.props import c02

OUT = "/verif/.cache/hunt"
WORK = "/verif/.cache/hunt/work"


def outcome_many(srcs, tag):
    impl = C.run_harness("ir", [("x%d" % i, s) for i, s in enumerate(srcs)], WORK + "/" + tag, timeout=3000)
    return [c02.classify(impl.get("x%d" % i, ["missing"]), s) for i, s in enumerate(srcs)]


def minimise(src, key):
    """ddmin on lines, then on whitespace-separated tokens within lines, then characters"""
    def reduce(units, join):
        n = 2
        while len(units) >= 2:
            chunk = max(1, len(units) // n)
            cands = []
            for i in range(0, len(units), chunk):
                cands.append(units[:i] + units[i + chunk:])
            res = outcome_many([join(c) for c in cands], "min")
            hit = [c for c, r in zip(cands, res) if r == key]
            if hit:
                units = min(hit, key=len); n = max(n - 1, 2)
            elif chunk == 1: break
            else: n = min(len(units), n * 2)
        return units
    lines = reduce(src.split("\n"), "\n".join)
    text = "\n".join(lines)
    toks = re.findall(r"\s+|[A-Za-z_0-9!]+|.", text, re.S)
    toks = reduce(toks, "".join)
    return "".join(toks)


def main():
    n = int(sys.argv[1]); seeds = [int(x) for x in sys.argv[2:]]
    os.makedirs(OUT, exist_ok=True)
    best = {}
    counts = collections.Counter()
    for seed in seeds:
        rng = random.Random(seed)
        cases = [s for k, s in GM.stream(rng, n)]
        res = outcome_many(cases, "hunt%d" % seed)
        for s, r in zip(cases, res):
            if r is None: continue
            counts[r] += 1
            if r not in best or len(s) < len(best[r]): best[r] = s
        print("seed", seed, dict(counts), flush=True)
    for key, src in sorted(best.items()):
        m = minimise(src, key)
        fn = os.path.join(OUT, re.sub(r"[^A-Za-z0-9.]+", "_", key) + ".pn")
        open(fn, "w", newline="").write(m)
        print("=== %s (%d -> %d bytes) %s\n%s\n" % (key, len(src), len(m), fn, m), flush=True)

main()
