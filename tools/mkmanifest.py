#!/usr/bin/env python3
"""Writes MANIFEST.json from the table below (kept in one place so that the
manifest is always valid and in step with the checks that exist)."""
import json, os
V = os.path.dirname(os.path.dirname(os.path.abspath(__file__)))

CHECKS = {
 "C04": dict(
   text="Machine-checked proof (Coq) that the label scoper's reverse stack scan emits exactly the diagnostics of the forward specification 'a goto may target a label later in the same block or later in an enclosing block; a label may not reuse such a name', for all function bodies (unbounded size, depth, names); tied to the code by running the real front end and the extracted model on the same parsed bodies (exhaustive small scope + random).",
   note="Trusted: Coq kernel; hand-written model Model/LabelScope.v of scoper/label_references.rs (tie = correspondence on parsed shapes, not a proof about the Rust code); extraction (ExtrOcamlBasic), driver.ml, harness serialiser. Print Assumptions: closed under the global context.",
   technique="Coq proof: model = specification by induction over statement trees; differential correspondence model vs implementation",
   design="5/C04"),

 "C06": dict(
   text="Machine-checked proof (Coq) that the three-flag syntax analyzer of the current tree emits, for every statement tree, exactly the codes of the structural specification (loop only last in a braced block: E800/E801; then-branch = goto or block, else-branch = goto, block or if: E840) and that the linter raises L1800 exactly once per braced branch starting with loop; correspondence on the real parsed shapes (exhaustive small trees + random).",
   note="Trusted: Coq kernel; hand-written model Model/Syntax.v of analyzer/syntax.rs and linter.rs (tie = correspondence); extraction, driver, harness. The pinned commit violated the property (D1, refuted in Coq by a witness) and was repaired by a fix: commit; the model follows the repaired code. Print Assumptions: closed.",
   technique="Coq proof: flag-automaton model = structural specification by induction with a flag invariant; differential correspondence",
   design="5/C06"),
 "C05": dict(
   text="Machine-checked proof (Coq) that the variable scoper (scope stack with resolution ids, per-label intersection of in-scope variables at gotos, pruning at labels, poisoning on use) emits exactly the diagnostics of a forward specification (use resolves to the outermost/earliest visible binding, E402 if none; duplicate iff name visible, E422/E424; a binding is skipped at a label of its own block iff a goto to that label preceded its declaration, E482 on use), for all programs whose labels have unique ids; correspondence of model, specification and an independent index-based oracle against the real front end (exhaustive small scope + random + mostly-valid generator).",
   note="Trusted: Coq kernel; hand-written model Model/VarScope.v; the hypothesis labels_once is monitored on every real input; reachability is the conservative 'may be skipped' reading of docs/errors.md; the index-based oracle (python) is a third opinion, not part of the proof. Print Assumptions: closed.",
   technique="Coq proof: simulation between the stateful analyzer model and a forward specification (invariant over scope stack / unresolved-label sets); differential correspondence + independent oracle",
   design="5/C05"),
 "C01": dict(
   text="Machine-checked proof (Coq) that, for every operator/comparison/cast and every primitive type the resolver admits for it, on both targets, the LLVM instruction, predicate or cast selected by the generator computes on bit patterns exactly the source-level result (wrapping + - *, truncating / %, signedness from the operand type, trunc/sext/zext); the selection tables are regenerated from generator.rs/resolver.rs/value_type.rs by the translator on every run, so an edited table re-states and re-checks the theorems. Tie: exhaustive opcodes stream (403 one-line functions compiled by the real compiler, opcode in the IR vs table) and an exec stream (generated programs run with lli vs the extracted definitional interpreter Model/Sem.v). Control-flow and memory lowering are validated by execution, not proved (partial).",
   note="Trusted: Coq kernel; translator rust2coq.py; LangRef semantics transcribed in Base/Bits.v; interpreter Model/Sem.v (documented semantics); LLVM 14 and lli; the typer. Print Assumptions: closed.",
   technique="Coq proof over translator-generated selection tables (bit-vector semantics) + exhaustive opcode correspondence + differential execution against an extracted interpreter",
   design="5/C01"),
 "C12": dict(
   text="Machine-checked proof (Coq) about the import expander: for every iteration order of the import set, each module receives exactly the signatures (bodies dropped, Public cleared, everything else kept) of the public declarations of the modules it imports directly, never private items and never items those modules imported themselves; two iteration orders differ only in the order of the spliced groups (and do differ as lists: the pinned commit's HashSet order is refuted by a witness and was repaired); the sorted order of the current tree is a function of the import set alone. Tie: the real lexer+parser+expander vs the extracted model on random module sets (exact equality of the declaration lists) and 6-fold re-expansion for determinism. Composition (split program = single file, every file order; private items rejected) is established by execution, not proof.",
   note="Trusted: Coq kernel; hand model Model/Expand.v; path resolution is a parameter of the model (flat names in the check); execution through LLVM/lli. Fixed defects: D3 (hash-order nondeterminism), D20 (segfault when two modules use print!). Print Assumptions: closed.",
   technique="Coq proof for all iteration orders (permutation-parametric model) + differential correspondence + metamorphic execution over module partitions and file orders",
   design="5/C12"),
 "C13": dict(
   text="Machine-checked proof (Coq), over the code table regenerated from Error::code and docs/errors.md on every run, that every code the compiler can attach to a diagnostic has a section in the published catalogue, that no two diagnostic kinds share a code, and that error/lint codes lie in the ranges the renderer uses. Locations and determinism are established by exploration, not proof (partial): every diagnostic of mutated corpus files, faulted generated programs, token soup, CRLF and multi-byte variants must lie in its file and start on the reported line, known offenders must be covered by the span, each report is rendered in 4 colour/charset configurations, and every input is compiled in 3 fresh processes whose verdict, diagnostics and IR text must be identical.",
   note="Trusted: Coq kernel; translator (reading of Error::code and of the headings of docs/errors.md); harness hook verif_primary_location (cfg penne_verif); ariadne is exercised, not modelled. Fixed defects: D8 (CRLF offsets), D13 (undocumented codes), D3 (hash-order IR). Print Assumptions: closed.",
   technique="Coq proof by computation over translator-generated code/catalogue tables + location invariants and 3-process determinism on generated failing inputs",
   design="5/C13"),
 "C17": dict(
   text="Machine-checked proof (Coq) about header extraction of the second-generation parser: for every node array with properly bracketed private zones the loop terminates without wrap-around and yields exactly the nodes outside the zones, in order, each converted (Public cleared, FunctionImpl replaced by the no-body marker, node references shifted by the number of skipped nodes); references land on the image of their target; declarations keep their order; and the parser's own zone bookkeeping (set_private/set_public/patch) always produces properly bracketed zones. Tie: the real Debug node array of generated modules is fed to the extracted model and its header must equal the real build_header() array node for node; the hypotheses zones_wf / refs_local are evaluated (by proved-sound boolean checkers) on every real array.",
   note="Trusted: Coq kernel; hand model Model/Header.v; reading of the derived Debug output (pv/deltatree.py); refs_local is a checked, not proved, invariant of the parser. Print Assumptions: closed.",
   technique="Coq proof: build_header = filter-and-convert specification under zone well-formedness (invariant of the buffer operations proved); differential correspondence on real node arrays",
   design="5/C17"),
 "C11": dict(
   text="Machine-checked proof (Coq) about the containment machinery that makes declaration order irrelevant: a cycle code (E413/E415/E416) is raised iff the containment graph of constants and structures has a cycle, for any order and multiplicity of edge processing; contained sets are exactly the reachability closure; for acyclic graphs every container gets a depth larger than everything it contains, the depth is the longest containment path and is invariant under every permutation of declarations and edges; the stable sort of analyze_and_resolve puts each container after what it contains and functions last; everything on or behind a cycle is poisoned. (Which cycle code is reported does depend on order: proved by witness, and the check compares verdicts, not code lists.) Tie: random dependency graphs in two source orders through the real front end (verdict, cycle codes, scoper depths vs the extracted model) and permuted generated programs executed with lli. Type legality per position (E350-E359, E380) is not covered here (partial).",
   note="Trusted: Coq kernel; hand model Model/Containers.v; the generator computes the edge list in the scoper's visiting order. Known finding D21 (resolver panic on a pointer to a self-containing structure). Print Assumptions: closed.",
   technique="Coq proof: reachability-closure invariant, cycle iff code, depth = longest path (permutation invariance), sort respects dependencies; differential correspondence + metamorphic permutation execution",
   design="5/C11"),
 "C10": dict(
   text="Machine-checked proof (Coq) that `|:T|` as the generator computes it equals the storage LLVM allocates for T under the module data layout (and the generator's divisibility assert cannot fire), that `|:[N]T|` = N * `|:T|`, that the type checker's word size (the E380 test) equals LLVM's allocation size for words of primitive members and never under-estimates it for nested words, and that structure sizes follow member sizes and alignment (offsets aligned, members disjoint, size a multiple of the alignment, monotone). The model's constants are checked against the translator's reading of value_type.rs. Tie: generated struct/word declarations whose sizes are printed at run time and compared with the extracted model; E380 iff the model rejects. Constant folding vs run time and named array lengths are established by execution (constant next to a variable with the same initialiser, both vs the interpreter), not by proof (partial: LLVM's folder is outside the model).",
   note="Trusted: Coq kernel; LLVM StructLayout and ABI alignments as transcribed in Model/Layout.v; LLVM/lli; interpreter Model/Sem.v. Print Assumptions: closed.",
   technique="Coq proof: typer layout = LLVM layout (exact for primitives, conservative for nested words), size-of = allocation size; differential execution of generated layouts and constant expressions",
   design="5/C10"),
 "C09": dict(
   text="Machine-checked proof (Coq) about integer literals from token to bit pattern: for every spelling (optional minus, magnitude below 2^128, naked / bit-integer / suffixed token) and every integer type on both targets, the parser's signed/bit split with unary-minus folding followed by the generator's materialisation (case-split constants and usize mask regenerated from generator.rs) yields exactly the mathematical value modulo 2^width; the truncation lint L1142 is raised iff the value is outside the type's range (ranges regenerated from value_type.rs), with one precisely characterised class of false positives (negated bit-integer literal of magnitude max+1: listed finding D22); a literal without lint has exactly its mathematical value. Tie: literal matrix (all integer types x boundary and random values x all spellings) compiled and run, value/lint/E140 vs the mathematical oracle and vs the extracted model; characters and strings (every \\xHH, simple escapes, \\u{}, raw multi-byte, concatenation) by execution; malformed forms by their codes.",
   note="Trusted: Coq kernel; translator; hand model Model/Literal.v of parser/linter/generator arms; lexing of spellings is proved on the lexer models (C14) and exercised end to end here. Fixed: D2 (usize mask), D9 (i128::MIN). Known finding D22. Print Assumptions: closed.",
   technique="Coq proof: materialisation = value mod 2^w and lint <-> out-of-range (with characterised exception) over translator-generated constants; exhaustive-by-boundary differential execution",
   design="5/C09"),
 "C03": dict(
   text="IR validity is decided by LLVM's own assembler and verifier (llvm-as, opt -passes=verify) run as independent tools on the text of every module and of the linked program, for every accepted input the generators produce: valid programs with random pub/extern flags, with and without main (never executed, so UB and non-termination are included), multi-module sets, accepted mutants of the corpus, and the wasm32 target. The part that is penne's own logic and can be proved is proved in Coq over tables regenerated from generator.rs on every run: main/pub/imported functions are externally visible, everything else private; extern functions use the C convention, others fastcc; an imported signature always matches its definition. Every source function must appear in the IR with exactly the table's linkage and convention (checked on every accepted program). The block-structure well-formedness of the control-flow lowering is being proved separately (Proofs/CfgProofs.v) and is not yet part of this claim (partial).",
   note="Trusted: LLVM 14 tools (their verifier rules are not modelled); translator; Coq kernel. Print Assumptions: closed.",
   technique="independent LLVM tools on all emitted IR + Coq proof over translator-generated linkage/calling-convention table + correspondence of define/declare lines",
   design="5/C03"),
 "C14": dict(
   text="Machine-checked proofs (Coq) on faithful executable models of both lexers: first generation — for every source (LF, CRLF, bare CR, non-ASCII) each token's span is exactly the character range of its text on the right line and column; decimal/hex/binary digit strings denote their mathematical value or E140 from 2^128 on, with suffixes giving the suffix type or E141; string and character escapes decode to exactly their bytes; inserting blanks or comments between tokens does not change the tokens; second generation — totality, exact byte spans and line numbers, value theorems, token-buffer bounds (shared with C15). The tie is unusually strong: both real lexers and both extracted models are compared on ALL strings up to length 3 (quick) / 4 (thorough) over a 48-character alphabet (token kinds, values, suffix types, spans, lines, columns, error codes), on generated token sequences against the generator's own token list with exact spans, and the second generation on arbitrary bytes. The two lexers are compared with each other on the same inputs; they agree except on six classes of input that are listed findings (K1-K6), each classified by the shape of the divergence. A Coq theorem that the two MODELS agree outside these classes is in progress (partial).",
   note="Trusted: Coq kernel; hand models Model/LexAlpha.v, Model/LexDelta.v (validated on millions of inputs by their authors and on the exhaustive scope at every run); UTF-8 decoding glue in the driver. Fixed: D4 (decimal overflow), D8 (CRLF offsets). Known findings K1-K6. Print Assumptions: closed.",
   technique="Coq proofs on executable lexer models (spans, values, escapes, layout invariance) + exhaustive small-scope differential testing of both implementations against both models and each other",
   design="5/C14"),
 "C18": dict(
   text="The decision logic of the command line tool is small enough to be modelled completely (backend = flag, else environment, else config, else default; exit status 0 iff compilation and the invoked backend succeeded; backend never invoked after a failed compilation; one .pn.ll per module under --out-dir) and the corresponding Coq theorems are immediate; the weight of this property is the correspondence: the real binary built from /repo (alpha + LLVM) is run on valid / multi-file / invalid / mixed inputs x build/run/emit x sampled combinations of --silent --verbose --color --arrows --out-dir --backend --config --wasm and PENNE_BACKEND/PENNE_LLI, with stub back ends that record their invocation and exit with 0, 3, SIGSEGV or do not exist; exit status, invoked backend, rendered diagnostics (no ANSI escapes under --color=never, ASCII only under --arrows=ascii), the IR files (validated by llvm-as, wasm32 triple under --wasm) are compared with the extracted model.",
   note="Trusted: clap, process spawning, file system (exercised, not modelled); Coq kernel. Fixed: D23 (host triple in per-module IR under --wasm). Known finding D17 (absolute input path escapes --out-dir). Print Assumptions: closed.",
   technique="Coq decision model (proved immediate properties) + sampled configuration-space correspondence against the real binary with recording stub back ends",
   design="5/C18"),
 "C02": dict(
   text="Partial by nature: absence of panics in a 3500-line type inference engine and inside LLVM cannot be proved with a hand model; what is proved (Coq) is the error-accumulation algebra of the resolver: compilation succeeds iff nothing in the resolved tree is an error or poisoned, a failure with an EMPTY error list requires a Poisoned leaf, and where errors are collected rather than short-circuited an Error leaf always surfaces. The property itself is decided by exploration: the whole pipeline (lex .. generate_ir, LLVM verifier included) runs in isolated workers on mutated corpus files, generated programs with injected faults, token soup, CRLF variants, ALL token sequences up to a small length (exhaustive), multi-module sets and nesting depth up to 256; every outcome other than success or failure-with-diagnostics (panic site, signal, timeout, empty error list) is a violation keyed by site, so that listed findings do not mask new ones.",
   note="Trusted: harness worker isolation; Coq kernel for the algebra. Known findings D11 (typer.rs:2909 on the repo's own sample), D15 (print!/format! of aggregates segfaults), D21 (resolver.rs:1000). Fixed: D20. Print Assumptions: closed.",
   technique="Coq proof of the poison/error accumulation algebra + crash-stream exploration in isolated processes with site-keyed findings",
   design="5/C02"),
 "C20": dict(
   text="Machine-checked proof (Coq) on the reference printer/parser (Model/RefParser.v): printing any tree the parser can return and parsing the tokens again gives the same tree, hence a second print is identical (all productions, no bound). The real rebuilder is compared differentially on grammar derivations, generated programs and the corpus: rebuild -> real lex+parse -> same tree up to literal spelling/suffix, second rebuild byte-identical; modules whose rebuilt text carries `#` annotations are re-checked with the annotations removed so that this listed finding does not hide others. On the pinned code the property fails for whole classes of modules (structure declarations, function-head flags, opaque structures, empty modules): listed findings D26-D29, each keyed by construct.",
   note="Trusted: Coq kernel; Model/RefParser.v (tied to the real first-generation parser by exact tree equality on every input of C16/C20 runs); harness serialiser showser.rs. Print Assumptions: closed.",
   technique="Coq proof of parse-print round trip on a reference grammar + differential round trip of the real rebuilder with construct-keyed findings",
   design="5/C20"),
 "C07": dict(
   text="Machine-checked proof (Coq) about the resolver's typing gate (resolve_binary_op_type, resolve_unary_op_type, resolve_compared_type, analyze_primitive_cast, analyze_bit_cast, use_function; the VALID_TYPES_FOR_* and conversion tables are regenerated from resolver.rs on every run): every accepted expression tree is well typed at EVERY node at any depth (both operands of a binary operator or comparison have one and the same type of the operator's class, the offset of a pointer advance is a usize, a cast is a type hint or a conversion between two different primitive types of the table), differing operand types give E551, class violations E550, bad casts E552/E553, untyped operands never resolve, a subexpression's errors are never dropped, call arguments must equal the parameter types in number and type (E510/E511/E512). Tie: exhaustive sweep of the real compiler over every operator x 13 x 13 primitive operand types, every comparison, unary operator, cast pair, pointer comparison, pointer-advance offset type, call argument pair and arity, assignment/initialisation/return with different types, plus random nested expressions with mostly-equal variable types: real verdict and codes vs the extracted gate; well-typed generated programs must be accepted and run correctly.",
   note="Trusted: Coq kernel; translator (tables); hand-written model Model/Resolve.v of the gate on typed trees - the typer that produces the annotations is not modelled: its role is covered by the exhaustive one-node sweep and by execution. The pinned commit violated the property (D30: offset of a pointer advance never checked; refuted in Coq by a witness, repaired by a fix: commit). Print Assumptions: closed.",
   technique="Coq proof: soundness of the typing gate by structural induction + completeness of each rejection with its code, over translator-generated class tables; exhaustive primitive-type sweep and random nested expressions against the real compiler",
   design="5/C07"),
}

NOT_YET = {
}

def main():
    props = [json.loads(l)["id"] for l in open(os.path.join(V, "properties.jsonl"))]
    checks = []
    for pid in props:
        if pid not in CHECKS: continue
        c = CHECKS[pid]
        checks.append(dict(
            property_id=pid,
            quick_cmd="./check %s quick" % pid,
            thorough_cmd="./check %s thorough" % pid,
            evidence_file="/verif/evidence/%s.json" % pid,
            replay_cmd_template="cat {path}",
            engine="coq-models",
            level_claimed=dict(category="proof", text=c["text"], design_ref="DESIGN.md §" + c["design"]),
            level_note=c["note"], technique=c["technique"]))
    na = [dict(property_id=p, reason=NOT_YET.get(p, "not yet claimed: the Coq model, theorems and correspondence check for this property are still being built (see DESIGN.md §8); no check is registered until it exists"))
          for p in props if p not in CHECKS]
    m = dict(version=1, setup_cmd="./setup.sh",
             hooks=dict(guard="penne_verif", enable="RUSTFLAGS=\"--cfg penne_verif\" (set by pv/common.py for the harness build; one add-only hook: Error::verif_primary_location)",
                        baseline_off_cmd="cd /repo && cargo test --workspace --no-fail-fast --offline",
                        source_commits=["ea463ae"], add_only=True),
             engines=[dict(name="coq-models", path="/verif/coq", serves_properties=[c["property_id"] for c in checks],
                           kind_free_text="Coq 8.16.1 development (models, proofs, property files) + translator + extracted OCaml driver + Rust correspondence harness, orchestrated by ./check")],
             checks=checks, not_applicable=na,
             notes="Every check: translate tables from /repo -> re-check Props/Cxx.v (Print Assumptions, audit) -> rebuild harness against /repo's working tree -> run implementation and extracted model on the same cases -> evidence.")
    json.dump(m, open(os.path.join(V, "MANIFEST.json"), "w"), indent=1)

if __name__ == "__main__":
    main()
