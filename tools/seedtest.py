#!/usr/bin/env python3
"""Confirm seeded breaking changes: for each /tmp/seed-<ID>/out/<n>/ apply patch.diff
to /repo's working tree (never committed), run `./check <ID> quick` (and `thorough`
when quick misses and --thorough is given), restore /repo, and store patch, demo,
meta and the result under /verif/seeded/<ID>/<n>/.
usage: seedtest.py <ID> [--thorough] [--only n] [--also ID2,ID3] [--round 2|3] [--stored]"""
import sys, os, subprocess, json, shutil, glob, time

def sh(cmd, **kw):
    return subprocess.run(cmd, shell=True, capture_output=True, text=True, **kw)

def clean_repo():
    sh("git -C /repo checkout -- . && git -C /repo clean -fdq")
    st = sh("git -C /repo status --porcelain").stdout.strip()
    assert st == "", "repo not clean: " + st

def run_check(pid, tier):
    t0 = time.time()
    p = sh("cd /verif && ./check %s %s" % (pid, tier), timeout=7200)
    lines = [l for l in (p.stdout + p.stderr).splitlines() if l.startswith("VIOLATION") or l.startswith("KNOWN-FINDING")]
    viol = [l for l in lines if l.startswith("VIOLATION")]
    replay = ""
    if viol:
        path = viol[0].split("replay=")[1].split(" ")[0]
        try: replay = open(path, errors="replace").read()[:3000]
        except OSError: pass
    return dict(tier=tier, exit=p.returncode, violations=viol, seconds=round(time.time() - t0, 1), first_replay=replay, tail=(p.stdout + p.stderr)[-1500:] if not viol else "")

def main():
    pid = sys.argv[1]
    thorough = "--thorough" in sys.argv
    only = sys.argv[sys.argv.index("--only") + 1] if "--only" in sys.argv else None
    also = sys.argv[sys.argv.index("--also") + 1].split(",") if "--also" in sys.argv else []
    rnd = sys.argv[sys.argv.index("--round") + 1] if "--round" in sys.argv else ""
    src = "/tmp/seed%s-%s/out" % (rnd, pid)
    stored = "--stored" in sys.argv or not os.path.isdir(src)      # re-test the patches kept under /verif/seeded
    clean_repo()
    prefix = ("r%s-" % rnd) if rnd else ""
    if stored:
        dirs = [d for d in sorted(glob.glob("/verif/seeded/%s/%s*/" % (pid, prefix))) if rnd or not os.path.basename(d.rstrip("/")).startswith("r")]
    else:
        dirs = sorted(d for d in glob.glob(src + "/*/") if os.path.basename(d.rstrip("/")).isdigit())
    for d in dirs:
        n = os.path.basename(d.rstrip("/"))
        if stored: n = n[len(prefix):]
        if only and n != only: continue
        patch = os.path.join(d, "patch.diff")
        if not os.path.exists(patch): print(pid, n, "no patch"); continue
        dst = "/verif/seeded/%s/%s%s" % (pid, prefix, n)
        os.makedirs(dst, exist_ok=True)
        if not stored:
            shutil.copy(patch, dst)
            if os.path.exists(os.path.join(d, "meta.json")): shutil.copy(os.path.join(d, "meta.json"), dst)
            if os.path.isdir(os.path.join(d, "demo")):
                shutil.rmtree(dst + "/demo", ignore_errors=True)
                shutil.copytree(os.path.join(d, "demo"), dst + "/demo", ignore=shutil.ignore_patterns("target", "*.ll", "*.o"))
        patch = os.path.join(dst, "patch.diff")
        a = sh("git -C /repo apply --whitespace=nowarn " + patch)
        if a.returncode != 0:
            print(pid, n, "PATCH DOES NOT APPLY", a.stderr[:300]); json.dump(dict(applies=False, err=a.stderr), open(dst + "/result.json", "w"), indent=1); continue
        try:
            results = [run_check(pid, "quick")]
            if not results[0]["violations"] and thorough:
                results.append(run_check(pid, "thorough"))
            for o in also:
                results.append(dict(run_check(o, "quick"), other=o))
        finally:
            clean_repo()
        caught = any(r["violations"] for r in results if not r.get("other"))
        json.dump(dict(property=pid, index=n, applies=True, caught=caught, runs=results), open(dst + "/result.json", "w"), indent=1)
        print(pid, n, "CAUGHT" if caught else "MISSED", [(r.get("other", r["tier"]), r["exit"], len(r["violations"]), r["seconds"]) for r in results], flush=True)
        for r in results:
            for v in r["violations"][:2]: print("    ", v)
            if r["first_replay"]: print("     |", r["first_replay"][:300].replace("\n", "\n     | "))

main()
