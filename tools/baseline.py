#!/usr/bin/env python3
"""Run /repo's test suite (guard off, no alpha feature) and compare with the
75 stable-pass tests of /root/.vp/BASELINE.json."""
import json, re, subprocess, sys, os
base = json.load(open("/root/.vp/BASELINE.json"))
env = dict(os.environ); env["CARGO_NET_OFFLINE"] = "true"; env.pop("RUSTFLAGS", None)
p = subprocess.run("cargo test --workspace --no-fail-fast --offline 2>&1", shell=True, cwd="/repo", env=env, capture_output=True, text=True)
cur = None; passed = set()
for line in p.stdout.splitlines():
    m = re.search(r"Running (?:unittests )?(\S+)", line)
    if m:
        f = os.path.basename(m.group(1)).split(".")[0]
        cur = f if f not in ("lib", "main") else None
    m = re.match(r"test (\S+) \.\.\. ok", line)
    if m and cur: passed.add("penne::%s::%s" % (cur, m.group(1)))
want = set(base["stable_pass"])
missing = sorted(want - passed)
print("baseline stable_pass: %d, passing now: %d, missing: %d" % (len(want), len(want & passed), len(missing)))
for m in missing: print("  MISSING", m)
extra = sorted(passed - want)
if extra: print("  newly passing:", len(extra))
sys.exit(1 if missing else 0)
