#!/bin/bash
# Re-test every stored seeded change (rounds 1-8) against the quick check of its own property.
# Patches /repo's working tree (never commits) and restores it: do not run while a `vp run` uses /repo.
cd /verif
for id in C01 C02 C03 C04 C05 C06 C07 C08 C09 C10 C11 C12 C13 C14 C15 C16 C17 C18 C19 C20; do
  for r in "" 2 3 4 5 6 7 8; do
    if [ -z "$r" ]; then python3 tools/seedtest.py $id --stored; else python3 tools/seedtest.py $id --stored --round $r; fi 2>&1 | grep -E "CAUGHT|MISSED|APPLY" | sed "s/^/round ${r:-1} /"
  done
done
